---------------------------- MODULE Reassembly ----------------------------
(* An independent model of the fragment reassembly protocol of AisParser, written from the      *)
(* statements of C05 / C06 / C17 (not from the crate). TLC explores it exhaustively for a small  *)
(* alphabet and checks the C06 history predicate on every behaviour up to the depth bound; the   *)
(* labelled state graph is then replayed edge by edge against the REAL parser                    *)
(* (models/conformance.py): every transition's outcome and delivered payload must be what the    *)
(* code returns.                                                                                 *)
EXTENDS Naturals, Sequences, FiniteSets

CONSTANTS MaxN,      \* largest declared fragment count (>= 2)
          Ids,       \* sequence ids; 0 stands for "absent"
          Depth      \* bound on the length of a behaviour

Frags == { <<n, k, i>> \in (2..MaxN) \X (1..MaxN) \X Ids : k <= n }
Letters == Frags \cup { <<1, 1, 0>>, <<0, 0, 0>> }   \* + an unfragmented sentence, + a rejected line

VARIABLES open,     \* is a group open?
          gid,      \* its sequence id
          lastk,    \* number of the last accepted fragment
          acc,      \* accepted fragments of the open group, in order
          hist,     \* history: sequence of [l |-> letter, o |-> outcome, d |-> delivered fragments]
          last      \* the last step (for the conformance replay): same record

vars == <<open, gid, lastk, acc, hist, last>>

Init == /\ open = FALSE /\ gid = 0 /\ lastk = 0 /\ acc = <<>> /\ hist = <<>>
        /\ last = [l |-> <<0, 0, 0>>, o |-> "init", d |-> <<>>]

Record(l, o, d) == /\ hist' = Append(hist, [l |-> l, o |-> o, d |-> d])
                   /\ last' = [l |-> l, o |-> o, d |-> d]

Send(l) ==
  LET n == l[1]  k == l[2]  i == l[3] IN
  /\ Len(hist) < Depth
  /\ IF n = 0 THEN                                   \* malformed / bad checksum: rejected, no trace
        /\ Record(l, "reject", <<>>) /\ UNCHANGED <<open, gid, lastk, acc>>
     ELSE IF n = 1 THEN                              \* unfragmented: its own message, no trace
        /\ Record(l, "complete", <<l>>) /\ UNCHANGED <<open, gid, lastk, acc>>
     ELSE IF k = 1 THEN                              \* a first fragment always opens a new group
        /\ open' = TRUE /\ gid' = i /\ lastk' = 1 /\ acc' = <<l>>
        /\ Record(l, "incomplete", <<>>)
     ELSE IF open /\ gid = i /\ lastk + 1 = k THEN   \* directly continues the open group
        IF k = n THEN
           /\ open' = FALSE /\ gid' = 0 /\ lastk' = 0 /\ acc' = <<>>
           /\ Record(l, "complete", Append(acc, l))
        ELSE
           /\ open' = TRUE /\ gid' = i /\ lastk' = k /\ acc' = Append(acc, l)
           /\ Record(l, "incomplete", <<>>)
     ELSE                                            \* anything else: rejected, no trace
        /\ Record(l, "reject", <<>>) /\ UNCHANGED <<open, gid, lastk, acc>>

Next == \E l \in Letters : Send(l)
Spec == Init /\ [][Next]_vars

(* ---- C06 as stated, on the history (no reference to the model's state variables) ---- *)
IsFrag(e) == e.l[1] >= 2
Accepted(e) == e.o \in {"incomplete", "complete"}
\* index of the latest accepted fragment before position p (0 if none)
PrevAcc(p) == LET S == { q \in 1..(p-1) : IsFrag(hist[q]) /\ Accepted(hist[q]) }
              IN IF S = {} THEN 0 ELSE CHOOSE q \in S : \A r \in S : r <= q

C06 ==
  \A p \in 1..Len(hist) :
    LET e == hist[p] IN
    (IsFrag(e) /\ e.l[2] >= 2) =>
      LET q == PrevAcc(p) IN
      /\ Accepted(e) <=> ( /\ q # 0
                           /\ hist[q].o = "incomplete"          \* group not yet delivered
                           /\ hist[q].l[2] + 1 = e.l[2]         \* previous accepted fragment is k-1
                           /\ hist[q].l[3] = e.l[3] )           \* same sequence id
      /\ (e.o = "complete") =>
           /\ Len(e.d) = e.l[2]
           /\ \A j \in 1..Len(e.d) : e.d[j][2] = j /\ e.d[j][3] = e.l[3]   \* fragments 1..k, one id
           /\ e.d[Len(e.d)] = e.l

\* C17: rejected lines and unfragmented sentences leave no trace (state unchanged), as an action property
NoTrace == [][ (last'.o = "reject" \/ last'.l[1] = 1) => UNCHANGED <<open, gid, lastk, acc>> ]_vars
=============================================================================
