SPECIFICATION Spec
CONSTANTS
  MaxN = 3
  Ids = {0, 5}
  Depth = 5
INVARIANT C06
PROPERTY NoTrace
