#!/usr/bin/env python3
"""TLC model check of models/Reassembly.tla + trace conformance against the real parser.

  models/conformance.py <depth>[:<MaxN>] <harness-binary> [<harness-binary> ...]

1. runs TLC (exhaustive BFS of the model, invariant C06, action property NoTrace) with -dump;
2. extracts EVERY maximal behaviour (states whose history has length = depth) from the dump;
3. replays all of them on the real AisParser (`aisverif conform`) in each given build and compares
   each step's outcome class and delivered payload.
Prints one JSON object. Exit 0 = model verified and all traces conform, 1 = a trace does not conform
(a verdict about the CODE), 2 = machinery problem (TLC missing / model violates its own property)."""
import json, os, re, subprocess, sys, tempfile, shutil

HERE = os.path.dirname(os.path.abspath(__file__))

def main():
    spec = sys.argv[1].split(":")
    depth = int(spec[0])
    maxn = int(spec[1]) if len(spec) > 1 else 3
    bins = sys.argv[2:]
    if shutil.which("tlc") is None:
        print(json.dumps(dict(skipped="tlc not on PATH")))
        return 0
    work = tempfile.mkdtemp(prefix="tlc-", dir=os.environ.get("AISVERIF_WORK", None))
    try:
        for f in ("Reassembly.tla",):
            shutil.copy(os.path.join(HERE, f), work)
        cfg = open(os.path.join(HERE, "Reassembly.cfg")).read()
        cfg = re.sub(r"Depth = \d+", f"Depth = {depth}", cfg)
        cfg = re.sub(r"MaxN = \d+", f"MaxN = {maxn}", cfg)
        open(os.path.join(work, "Reassembly.cfg"), "w").write(cfg)
        dump = os.path.join(work, "states.dump")
        p = subprocess.run(["tlc", "-workers", "8", "-deadlock", "-dump", dump, "Reassembly.tla"], cwd=work,
                           stdout=subprocess.PIPE, stderr=subprocess.STDOUT, text=True)
        out = p.stdout
        if "No error has been found" not in out:
            print(json.dumps(dict(error="TLC did not verify the model", output=out[-3000:])))
            return 2
        m = re.search(r"(\d+) states generated, (\d+) distinct states found", out)
        generated, distinct = (int(m.group(1)), int(m.group(2))) if m else (0, 0)
        md = re.search(r"depth of the complete state graph search is (\d+)", out)
        # every state carries its whole history: the maximal ones are the complete behaviours
        # (TLC breaks long records over several lines with extra blanks: match on the text with ALL
        # white space removed)
        rec = re.compile(r'\[l\|-><<(\d+),(\d+),(\d+)>>,o\|->"(\w+)",d\|-><<(.*?)>>\]')
        tup = re.compile(r"<<(\d+),(\d+),(\d+)>>")
        hist_file = os.path.join(work, "behaviours.txt")
        n_beh = 0
        with open(dump) as f, open(hist_file, "w") as o:
            block = []
            def flush(block):
                nonlocal n_beh
                text = re.sub(r"\s+", "", "".join(block))
                i = text.find("hist=")
                if i < 0:
                    return
                steps = rec.findall(text[i:])
                if len(steps) != depth:
                    return
                parts = []
                for (n, k, idv, outc, d) in steps:
                    ds = "+".join(".".join(t) for t in tup.findall(d)) or "-"
                    parts.append(f"{n}.{k}.{idv}/{outc}/{ds}")
                o.write(" ".join(parts) + "\n")
                n_beh += 1
            for line in f:
                if line.startswith("State "):
                    flush(block)
                    block = []
                else:
                    block.append(line.strip())
            flush(block)
        res = dict(model="models/Reassembly.tla", invariant="C06 (history predicate)", action_property="NoTrace",
                   depth=depth, max_fragment_count=maxn, tlc_states_generated=generated, tlc_distinct_states=distinct,
                   tlc_graph_depth=int(md.group(1)) if md else None, maximal_behaviours=n_beh, builds=[])
        rc = 0
        for b in bins:
            q = subprocess.run([b, "conform", hist_file], stdout=subprocess.PIPE, stderr=subprocess.PIPE, text=True)
            try:
                j = json.loads(q.stdout.strip().splitlines()[-1])
            except Exception:
                print(json.dumps(dict(error="harness conform failed", output=(q.stdout + q.stderr)[-2000:])))
                return 2
            res["builds"].append(j)
            if q.returncode == 1:
                rc = 1
        print(json.dumps(res))
        return rc
    finally:
        shutil.rmtree(work, ignore_errors=True)

if __name__ == "__main__":
    sys.exit(main())
