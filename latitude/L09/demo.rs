// Latitude demo 09: type 15 at lengths that are none of its three legal forms.
// A second station is reported only when wholly present (>= 160 bits); a 144-bit
// payload decodes with one station (was an error), a 152-bit payload reports one
// station (was two, the second without slot offset). Passes with the change only.
use ais::messages::{parse, AisMessage};

fn payload(n: usize) -> Vec<u8> {
    let mut v = vec![0xffu8; n];
    v[0] = 15 << 2 | 3;
    v
}

fn shape(n: usize) -> Vec<usize> {
    match parse(&payload(n)).expect("must decode") {
        AisMessage::Interrogation(i) => {
            assert_eq!(i.message_type, 15);
            assert_eq!(i.mmsi, 0x3fff_ffff);
            i.stations.iter().map(|s| s.messages.len()).collect()
        }
        other => panic!("{:?}", other),
    }
}

#[test]
fn partial_second_station_is_not_reported() {
    assert_eq!(shape(18), vec![2]); // 144 bits
    assert_eq!(shape(19), vec![2]); // 152 bits
}

#[test]
fn legal_forms_unchanged() {
    assert_eq!(shape(11), vec![1]); // 88 bits
    assert_eq!(shape(14), vec![2]); // 110 bits + 2
    assert_eq!(shape(20), vec![2, 1]); // 160 bits
    match parse(&payload(20)).unwrap() {
        AisMessage::Interrogation(i) => {
            assert_eq!(i.stations[1].mmsi, 0x3fff_ffff);
            assert_eq!(i.stations[1].messages[0].slot_offset, Some(4095));
        }
        _ => unreachable!(),
    }
}
