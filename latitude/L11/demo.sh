#!/bin/sh
# Latitude demo 11: echo format of the offending line in the CLI's stderr records.
# With the change the bytes are echoed via escape_ascii (no quotes, \xNN for non-ASCII);
# exits 0 (PASS) with the change, 1 without it.
cd "$(dirname "$0")/../.." || exit 2
cargo build --offline -q 2>/dev/null || { echo "build failed"; exit 2; }
good='!AIVDM,1,1,,A,13u?etPv2;0n:dDPwUM1U1Cb069D,0*24'
err=$(printf 'garbage\377\r\n%s\n\n' "$good" | target/debug/aisparser 2>&1 >/dev/null)
rc=$?
out=$(printf 'garbage\377\r\n%s\n\n' "$good" | target/debug/aisparser 2>/dev/null)
tab=$(printf '\t')
[ "$rc" -eq 0 ] || { echo "FAIL: exit status $rc"; exit 1; }
# still: one stdout record for the good line, one stderr record per rejected line (2)
[ "$(printf '%s\n' "$out" | wc -l)" -eq 1 ] || { echo "FAIL: stdout records"; exit 1; }
printf '%s\n' "$out" | grep -q 'PositionReport' || { echo "FAIL: stdout lacks message"; exit 1; }
[ "$(printf '%s\n' "$err" | wc -l)" -eq 2 ] || { echo "FAIL: stderr records"; exit 1; }
first=$(printf '%s\n' "$err" | head -n 1)
case "$first" in
  'garbage\xff\r'"$tab"'Nmea {'*) printf "PASS: %s\n" "$first"; exit 0 ;;
  *) printf "FAIL (old format?): %s\n" "$first"; exit 1 ;;
esac
