// Latitude demo 12: 28/27-bit coordinates are scaled in double precision and
// rounded once, giving the correctly rounded single-precision value of
// raw/600000 (the old `raw as f32 / 600000.0` rounds twice above 2^24).
// Passes with the change, fails without it.
use ais::messages::{parse, AisMessage};

fn put(v: &mut [u8], pos: usize, width: usize, val: u32) {
    for i in 0..width {
        if (val >> (width - 1 - i)) & 1 == 1 {
            v[(pos + i) / 8] |= 0x80 >> ((pos + i) % 8);
        }
    }
}

fn type1(lon: i32, lat: i32) -> (Option<f32>, Option<f32>) {
    let mut v = vec![0u8; 21];
    put(&mut v, 0, 6, 1);
    put(&mut v, 8, 30, 123456789);
    put(&mut v, 61, 28, (lon as u32) & 0x0fff_ffff);
    put(&mut v, 89, 27, (lat as u32) & 0x07ff_ffff);
    match parse(&v).unwrap() {
        AisMessage::PositionReport(p) => (p.longitude, p.latitude),
        other => panic!("{:?}", other),
    }
}

fn exact(raw: i32) -> f32 {
    (raw as f64 / 600_000.0) as f32
}

#[test]
fn correctly_rounded_above_2_pow_24() {
    let (lon, lat) = (72_077_100, 22_676_583);
    // the single-precision-only formula is one ulp off for these raw values
    assert_ne!(lon as f32 / 600_000.0, exact(lon));
    assert_ne!(lat as f32 / 600_000.0, exact(lat));
    assert_eq!(type1(lon, lat), (Some(exact(lon)), Some(exact(lat))));
    assert_eq!(type1(-73_478_868, -lat), (Some(exact(-73_478_868)), Some(exact(-lat))));
}

#[test]
fn unchanged_values() {
    // below 2^24 both formulas agree; sentinels and the most negative values too
    for raw in [0, 1, -1, 599_999, 16_777_215, -16_777_216, 12_345_678] {
        assert_eq!(raw as f32 / 600_000.0, exact(raw));
        assert_eq!(type1(raw, raw), (Some(exact(raw)), Some(exact(raw))));
    }
    assert_eq!(type1(108_600_000, 54_600_000), (None, None));
    assert_eq!(type1(-134_217_728, -67_108_864), (Some(-134_217_728.0 / 600_000.0), Some(-67_108_864.0 / 600_000.0)));
}
