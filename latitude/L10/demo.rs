// Latitude demo 10: `unarmor` refuses fill counts of 6 or more (outside the
// 0..=5 range every statement is about). Passes with the change, fails without it.
use ais::messages::unarmor;

#[test]
fn fill_of_six_or_more_is_an_error() {
    assert!(unarmor(b"?5OP", 6).is_err());
    assert!(unarmor(b"?5OP", 7).is_err());
    assert!(unarmor(b"", 6).is_err());
}

#[test]
fn fill_zero_to_five_unchanged() {
    assert_eq!(&unarmor(b"9qW", 3).unwrap()[..], &[0b0010_0111, 0b1001_1000, 0][..]);
    assert_eq!(&unarmor(b"w", 5).unwrap()[..], &[0b1000_0000][..]);
    for fill in 0..=5 {
        assert_eq!(unarmor(b"?5OP", fill).unwrap().len(), 3);
    }
}
