// Latitude demo 08: the minute of a SOTDMA "UTC hour and minute" sub-message
// is the 7-bit field of ITU-R M.1371 (sub-message bits 8..2), not its low 6 bits.
// Passes with the change, fails without it.
use ais::messages::radio_status::{RadioStatus, SubMessage};
use ais::messages::{parse, AisMessage};

/// 168-bit type-1 message, all fields zero except the 19-bit communication state
fn type1_with_state(state: u32) -> Vec<u8> {
    let mut v = vec![0u8; 21];
    v[0] = 1 << 2;
    v[18] |= ((state >> 16) & 0x07) as u8;
    v[19] = (state >> 8) as u8;
    v[20] = state as u8;
    v
}

fn sub(state: u32) -> SubMessage {
    match parse(&type1_with_state(state)).unwrap() {
        AisMessage::PositionReport(p) => match p.radio_status {
            RadioStatus::Sotdma(s) => {
                assert_eq!(s.slot_timeout, 1);
                s.sub_message
            }
            other => panic!("{:?}", other),
        },
        other => panic!("{:?}", other),
    }
}

// sync state 0, slot time-out 1, then the 14-bit sub-message
fn state(hour: u32, minute7: u32) -> u32 {
    (1 << 14) | (hour << 9) | (minute7 << 2)
}

#[test]
fn minute_uses_all_seven_bits() {
    assert_eq!(sub(state(13, 64 + 37)), SubMessage::UtcHourAndMinute(13, 101));
    assert_eq!(sub(state(23, 127) | 3), SubMessage::UtcHourAndMinute(23, 127));
}

#[test]
fn legal_minutes_unchanged() {
    for m in 0..60 {
        assert_eq!(sub(state(17, m)), SubMessage::UtcHourAndMinute(17, m as u8));
    }
}
