// Latitude demo 05: a '*' inside the channel or payload field makes the line
// malformed (was: accepted when the trailing hex equalled the XOR up to the
// first '*'). Passes with the change, fails without it.
use ais::sentence::{AisFragments, AisParser};

fn xor(s: &str) -> u8 {
    s.bytes().fold(0u8, |a, b| a ^ b)
}

#[test]
fn star_in_payload_is_rejected() {
    let head = "AIVDM,1,1,,A,13u?etPv2;0n:dD"; // bytes up to the first '*'
    let l = format!("!{}*PwUM1U1Cb069D,0*{:02X}", head, xor(head));
    let mut p = AisParser::new();
    assert!(p.parse(l.as_bytes(), false).is_err());
}

#[test]
fn star_in_channel_is_rejected() {
    let head = "AIVDM,1,1,,A";
    let l = format!("!{}*,13u?etPv2;0n:dDPwUM1U1Cb069D,0*{:02X}", head, xor(head));
    let mut p = AisParser::new();
    assert!(p.parse(l.as_bytes(), false).is_err());
}

#[test]
fn ordinary_line_still_accepted() {
    let body = "AIVDM,1,1,,A,13u?etPv2;0n:dDPwUM1U1Cb069D,0";
    let l = format!("!{}*{:02X}", body, xor(body));
    let mut p = AisParser::new();
    assert!(matches!(p.parse(l.as_bytes(), true), Ok(AisFragments::Complete(_))));
}
