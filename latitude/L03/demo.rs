// Latitude demo 03: sentences whose fragment numbering is itself invalid
// (number 0, number > count, count 0) are rejected outright.
// Passes with the change, fails without it.
use ais::sentence::{AisFragments, AisParser};

fn line(body: &str) -> Vec<u8> {
    let cs = body.bytes().fold(0u8, |a, b| a ^ b);
    format!("!{}*{:02X}", body, cs).into_bytes()
}

const P: &str = "13u?etPv2;0n:dDPwUM1U1Cb069D";

#[test]
fn number_greater_than_count_of_one() {
    let mut p = AisParser::new();
    assert!(p.parse(&line(&format!("AIVDM,1,2,,A,{},0", P)), false).is_err());
}

#[test]
fn count_zero() {
    let mut p = AisParser::new();
    assert!(p.parse(&line(&format!("AIVDM,0,1,,A,{},0", P)), false).is_err());
}

#[test]
fn number_beyond_count_cannot_close_an_open_group() {
    let mut p = AisParser::new();
    assert!(matches!(p.parse(&line("AIVDM,3,1,5,A,55NBjP01mtGI,0"), false), Ok(AisFragments::Incomplete(_))));
    assert!(matches!(p.parse(&line("AIVDM,3,2,5,A,L@CW;SM<D60P,0"), false), Ok(AisFragments::Incomplete(_))));
    // "fragment 3 of 2": invalid numbering, rejected without touching the open group
    assert!(p.parse(&line("AIVDM,2,3,5,A,5Ld0000,0"), false).is_err());
    // the real fragment 3 of 3 still completes the group
    match p.parse(&line("AIVDM,3,3,5,A,0000,2"), false) {
        Ok(AisFragments::Complete(s)) => assert_eq!(&s.data[..], &b"55NBjP01mtGIL@CW;SM<D60P0000"[..]),
        other => panic!("{:?}", other),
    }
}

#[test]
fn valid_numbering_unaffected() {
    let mut p = AisParser::new();
    assert!(matches!(p.parse(&line(&format!("AIVDM,1,1,,A,{},0", P)), true), Ok(AisFragments::Complete(_))));
    assert!(matches!(p.parse(&line("AIVDM,255,1,,A,1,0"), false), Ok(AisFragments::Incomplete(_))));
}
