// Latitude demo 07: truncated type-5 message whose last whole destination
// character is followed by stray bits (but not bit 422): DTE is the default
// 'not ready' instead of the first stray bit. Passes with the change only.
use ais::messages::types::Dte;
use ais::messages::{parse, unarmor, AisMessage};

const FULL: &[u8] = b"53`soB8000010KSOW<0P4eDp4l6000000000000U0p<24t@P05H3S833CDP000000000000";

fn dte(bytes: &[u8]) -> (String, Dte) {
    match parse(bytes).unwrap() {
        AisMessage::StaticAndVoyageRelatedData(m) => (m.destination.as_str().to_string(), m.dte),
        other => panic!("{:?}", other),
    }
}

#[test]
fn stray_bits_are_not_dte() {
    let bits = unarmor(FULL, 0).unwrap();
    // 45 bytes = 360 bits: destination has 9 whole characters + 4 stray (zero) bits
    let (dest, d) = dte(&bits[..45]);
    assert_eq!(dest, "NL LMMR");
    assert_eq!(d, Dte::NotReady);
    // 38 bytes = 304 bits: no whole character, 2 stray bits
    let (dest, d) = dte(&bits[..38]);
    assert_eq!(dest, "");
    assert_eq!(d, Dte::NotReady);
}

#[test]
fn unchanged_cases() {
    let bits = unarmor(FULL, 0).unwrap();
    // whole message: bit 422 is transmitted (0 = ready)
    assert_eq!(dte(&bits[..53]).1, Dte::Ready);
    // 46 bytes = 368 bits: 11 whole characters, nothing after them
    assert_eq!(dte(&bits[..46]).1, Dte::NotReady);
}
