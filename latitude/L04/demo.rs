// Latitude demo 04: the parser's Debug output is a summary of the reassembly
// state (no buffered bytes dumped). Passes with the change, fails without it.
use ais::sentence::AisParser;

fn line(body: &str) -> Vec<u8> {
    let cs = body.bytes().fold(0u8, |a, b| a ^ b);
    format!("!{}*{:02X}", body, cs).into_bytes()
}

#[test]
fn debug_of_fresh_parser() {
    let p = AisParser::new();
    assert_eq!(
        format!("{:?}", p),
        "AisParser { group_open: false, sequence_id: None, fragments_received: 0, buffered_payload_bytes: 0 }"
    );
}

#[test]
fn debug_with_open_group() {
    let mut p = AisParser::new();
    p.parse(&line("AIVDM,2,1,7,B,55NBjP01mtGI,0"), false).unwrap();
    assert_eq!(
        format!("{:?}", p),
        "AisParser { group_open: true, sequence_id: Some(7), fragments_received: 1, buffered_payload_bytes: 12 }"
    );
}
