// Latitude demo 01: the TEXT of the fragment-sequencing errors changed.
// Passes with the change, fails without it. Public API only.
use ais::sentence::AisParser;

fn line(body: &str) -> Vec<u8> {
    let cs = body.bytes().fold(0u8, |a, b| a ^ b);
    format!("!{}*{:02X}", body, cs).into_bytes()
}

#[test]
fn orphan_fragment_error_text() {
    let mut p = AisParser::new();
    // fragment 2 of 2 without a fragment 1: still an error, new wording
    let err = p.parse(&line("AIVDM,2,2,,A,0000000,2"), false).unwrap_err();
    let text = format!("{:?}", err);
    assert!(text.contains("Nmea"), "{}", text);
    assert!(text.contains("Fragment does not continue the open fragment group"), "{}", text);
}

#[test]
fn id_mismatch_error_text() {
    let mut p = AisParser::new();
    assert!(p.parse(&line("AIVDM,2,1,3,A,55NBjP01mtGIL@CW;SM<D60P5Ld000000000000P0`<3557l0<50@kk@K5h@,0"), false).is_ok());
    let err = p.parse(&line("AIVDM,2,2,4,A,00000000000,2"), false).unwrap_err();
    let text = format!("{:?}", err);
    assert!(text.contains("Sequence id differs from the open fragment group"), "{}", text);
}
