// Latitude demo 06: in the one-station/two-request form of a type-15 message
// (108 bits + spare) an all-zero second request is reported as an element.
// Passes with the change, fails without it.
use ais::messages::{parse, AisMessage};

struct Bits(Vec<u8>, usize);
impl Bits {
    fn put(&mut self, v: u64, w: usize) {
        for i in (0..w).rev() {
            if self.1 % 8 == 0 {
                self.0.push(0);
            }
            if (v >> i) & 1 == 1 {
                *self.0.last_mut().unwrap() |= 0x80 >> (self.1 % 8);
            }
            self.1 += 1;
        }
    }
}

fn head() -> Bits {
    let mut b = Bits(Vec::new(), 0);
    b.put(15, 6); b.put(0, 2); b.put(3669981, 30); b.put(0, 2);
    b.put(230682000, 30); b.put(5, 6); b.put(0, 12); // first request: type 5, offset 0
    b
}

fn stations(bytes: &[u8]) -> Vec<Vec<(u8, Option<u16>)>> {
    match parse(bytes).unwrap() {
        AisMessage::Interrogation(i) => i
            .stations
            .iter()
            .map(|s| s.messages.iter().map(|m| (m.message_type, m.slot_offset)).collect())
            .collect(),
        other => panic!("{:?}", other),
    }
}

#[test]
fn all_zero_second_request_in_110_bit_form_is_reported() {
    let mut b = head();
    b.put(0, 2); b.put(0, 6); b.put(0, 12); b.put(0, 2); // 110 bits
    assert_eq!(b.1, 110);
    assert_eq!(stations(&b.0), vec![vec![(5, None), (0, None)]]);
}

#[test]
fn other_forms_unchanged() {
    // 88-bit form padded to 96 bits: one request
    let mut b = head();
    b.put(0, 8);
    assert_eq!(stations(&b.0), vec![vec![(5, None)]]);
    // 160-bit form, first station asked for one type only (second slot zero)
    let mut b = head();
    b.put(0, 2); b.put(0, 6); b.put(0, 12); b.put(0, 2);
    b.put(431008813, 30); b.put(3, 6); b.put(77, 12); b.put(0, 2);
    assert_eq!(b.1, 160);
    assert_eq!(stations(&b.0), vec![vec![(5, None)], vec![(3, Some(77))]]);
}
