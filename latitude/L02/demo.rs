// Latitude demo 02: a line that is malformed AND has a wrong checksum is now
// reported in the Checksum category (was Nmea). Passes with the change only.
use ais::errors::Error;
use ais::sentence::AisParser;

fn xor(body: &str) -> u8 {
    body.bytes().fold(0u8, |a, b| a ^ b)
}

#[test]
fn malformed_and_wrong_checksum_is_checksum_error() {
    // fill count 7 is malformed (must be below 6)
    let body = "AIVDM,1,1,,A,13u?etPv2;0n:dDPwUM1U1Cb069D,7";
    let good = xor(body);
    let bad = good ^ 0x21;
    let mut p = AisParser::new();
    let err = p.parse(format!("!{}*{:02X}", body, bad).as_bytes(), true).unwrap_err();
    assert_eq!(err, Error::Checksum { expected: bad, found: good });
}

#[test]
fn malformed_with_matching_checksum_is_still_not_a_checksum_error() {
    let body = "AIVDM,1,1,,A,13u?etPv2;0n:dDPwUM1U1Cb069D,7";
    let mut p = AisParser::new();
    let err = p.parse(format!("!{}*{:02X}", body, xor(body)).as_bytes(), true).unwrap_err();
    assert!(matches!(err, Error::Nmea { .. }));
}

#[test]
fn missing_field_and_wrong_checksum() {
    let body = "AIVDM,1,1,,A,13u?etPv2;0n:dDPwUM1U1Cb069D"; // fill field missing
    let bad = xor(body) ^ 0xFF;
    let mut p = AisParser::new();
    let err = p.parse(format!("${}*{:02x}", body, bad).as_bytes(), false).unwrap_err();
    assert_eq!(err, Error::Checksum { expected: bad, found: xor(body) });
}
