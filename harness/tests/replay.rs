//! A recorded violation as a plain unit test: re-executes ONE case (no explorer, no driver).
//!
//!   AISVERIF_REPLAY="C02 quick LINE-MUT1 123456" cargo test --offline --profile verif --features std --test replay
//!   AISVERIF_REPLAY_FILE=/verif/replays/C02-line.accepts-bad-checksum.json cargo test … --test replay
//!
//! The test FAILS while the recorded case still violates its property and passes once it does not
//! (or when no replay is requested).
use aisverif::{replay_case, tier_of};

fn field<'a>(json: &'a str, key: &str) -> Option<&'a str> {
    let k = format!("\"{}\":", key);
    let p = json.find(&k)? + k.len();
    let rest = json[p..].trim_start();
    if let Some(r) = rest.strip_prefix('"') {
        r.find('"').map(|e| &r[..e])
    } else {
        let e = rest.find(|c: char| c == ',' || c == '}' || c == '\n').unwrap_or(rest.len());
        Some(rest[..e].trim())
    }
}

#[test]
fn recorded_case_no_longer_violates() {
    let spec = if let Ok(s) = std::env::var("AISVERIF_REPLAY") {
        s
    } else if let Ok(f) = std::env::var("AISVERIF_REPLAY_FILE") {
        let j = std::fs::read_to_string(&f).expect("replay file");
        format!(
            "{} {} {} {}",
            field(&j, "property").expect("property"),
            field(&j, "tier").expect("tier"),
            field(&j, "space").expect("space"),
            field(&j, "index").expect("index")
        )
    } else {
        eprintln!("no AISVERIF_REPLAY / AISVERIF_REPLAY_FILE given: nothing to replay");
        return;
    };
    let parts: Vec<&str> = spec.split_whitespace().collect();
    assert_eq!(parts.len(), 4, "expected: <PROP> <tier> <space> <index>");
    let sigs = replay_case(parts[0], tier_of(parts[1]), parts[2], parts[3].parse().expect("index")).expect("replay");
    assert!(sigs.is_empty(), "case {} still violates {}: {:?}", spec, parts[0], sigs);
}
