//! Exhaustive, index-addressable space runner.
//!
//! A space is a finite set `0..size` plus a closure deciding case `i`. The runner enumerates
//! the set COMPLETELY (static chunking over worker threads with one atomic work counter); nothing
//! is sampled. Every case runs the subject under `guard` (catch_unwind + silent panic hook), so a
//! panic in the crate under test is an observation, not a crash of the machinery.
use crate::json::J;
use std::cell::RefCell;
use std::collections::{BTreeMap, HashSet};
use std::panic::{catch_unwind, AssertUnwindSafe};
use std::sync::atomic::{AtomicBool, AtomicU64, Ordering};
use std::sync::{Arc, Mutex};
use std::time::{Duration, Instant};

thread_local! {
    static LAST_PANIC: RefCell<Option<String>> = const { RefCell::new(None) };
}

pub fn install_panic_hook() {
    std::panic::set_hook(Box::new(|info| {
        let msg = if let Some(s) = info.payload().downcast_ref::<&str>() {
            s.to_string()
        } else if let Some(s) = info.payload().downcast_ref::<String>() {
            s.clone()
        } else {
            "<non-string panic>".to_string()
        };
        let loc = info
            .location()
            .map(|l| format!("{}:{}", l.file(), l.line()))
            .unwrap_or_default();
        LAST_PANIC.with(|p| *p.borrow_mut() = Some(format!("{} @ {}", msg, loc)));
    }));
}

/// Run the subject; a panic becomes `Err(message @ file:line)`.
#[inline]
pub fn guard<T>(f: impl FnOnce() -> T) -> Result<T, String> {
    match catch_unwind(AssertUnwindSafe(f)) {
        Ok(v) => Ok(v),
        Err(_) => Err(LAST_PANIC
            .with(|p| p.borrow_mut().take())
            .unwrap_or_else(|| "panic".to_string())),
    }
}

pub const CHUNK: u64 = 4096;

/// Work-unit size: a deterministic function of the space size only (so that the per-chunk digests
/// of the three builds line up): small spaces with expensive cases are split finely enough to keep
/// all workers busy.
pub fn chunk_size(n: u64) -> u64 {
    (n / 512).clamp(1, CHUNK)
}
/// Outcome digest used in ALL builds for a case whose input exceeds a documented no-allocator
/// capacity (C18): the builds may legitimately differ there, but only by an `Err` in that build.
pub const CAP_TOKEN: u64 = 0x0CA9_AC17;
const MAX_DISTINCT: usize = 1 << 16;

#[derive(Clone, Debug)]
pub struct Violation {
    pub sig: String,
    pub index: u64,
    pub count: u64,
    pub detail: J,
}

/// Per-worker accumulator handed to the case closure.
pub struct Local {
    pub evals: u64,
    pub skipped: u64,
    pub nontrivial: u64,
    pub unjudged: u64,
    pub hist: BTreeMap<&'static str, u64>,
    pub viols: BTreeMap<String, Violation>,
    pub samples: Vec<(u64, J)>,
    pub distinct: HashSet<u64>,
    pub sample_here: bool,
    pub verbose: bool,
    pub cur: u64,
    chunk_acc: u64,
    pub want_digest: bool,
    /// verbose mode: the outcome digests of the case, in order
    pub trace: Vec<u64>,
}

impl Local {
    pub fn new() -> Self {
        Local {
            evals: 0,
            skipped: 0,
            nontrivial: 0,
            unjudged: 0,
            hist: BTreeMap::new(),
            viols: BTreeMap::new(),
            samples: Vec::new(),
            distinct: HashSet::new(),
            sample_here: false,
            verbose: false,
            cur: 0,
            chunk_acc: 0,
            want_digest: false,
            trace: Vec::new(),
        }
    }
    /// The index does not denote a case (degenerate mutation, e.g. replacing a byte by itself).
    #[inline]
    pub fn skip(&mut self) {
        self.skipped += 1;
        self.evals -= 1;
    }
    #[inline]
    pub fn class(&mut self, c: &'static str) {
        *self.hist.entry(c).or_insert(0) += 1;
    }
    #[inline]
    pub fn nontrivial(&mut self) {
        self.nontrivial += 1;
    }
    #[inline]
    pub fn unjudged(&mut self) {
        self.unjudged += 1;
    }
    /// Digest of the canonical outcome of this case (distinct-outcome counting and C18 chunks).
    #[inline]
    pub fn outcome(&mut self, d: u64) {
        if self.verbose {
            self.trace.push(d);
        }
        if self.distinct.len() < MAX_DISTINCT {
            self.distinct.insert(d);
        }
        if self.want_digest {
            self.chunk_acc = mix(self.chunk_acc ^ d);
        }
    }
    pub fn violation(&mut self, sig: &str, detail: impl FnOnce() -> J) {
        let idx = self.cur;
        match self.viols.get_mut(sig) {
            Some(v) => {
                v.count += 1;
                if idx < v.index {
                    v.index = idx;
                    v.detail = detail();
                }
            }
            None => {
                self.viols.insert(
                    sig.to_string(),
                    Violation {
                        sig: sig.to_string(),
                        index: idx,
                        count: 1,
                        detail: detail(),
                    },
                );
            }
        }
    }
    pub fn sample(&mut self, j: impl FnOnce() -> J) {
        if self.sample_here || self.verbose {
            let idx = self.cur;
            self.samples.push((idx, j()));
        }
    }
    fn merge(&mut self, o: Local) {
        self.evals += o.evals;
        self.skipped += o.skipped;
        self.nontrivial += o.nontrivial;
        self.unjudged += o.unjudged;
        for (k, v) in o.hist {
            *self.hist.entry(k).or_insert(0) += v;
        }
        for (k, v) in o.viols {
            match self.viols.get_mut(&k) {
                Some(m) => {
                    m.count += v.count;
                    if v.index < m.index {
                        m.index = v.index;
                        m.detail = v.detail;
                    }
                }
                None => {
                    self.viols.insert(k, v);
                }
            }
        }
        self.samples.extend(o.samples);
        for d in o.distinct {
            if self.distinct.len() < MAX_DISTINCT {
                self.distinct.insert(d);
            }
        }
    }
}

#[inline]
pub fn mix(mut x: u64) -> u64 {
    // splitmix64 finaliser
    x = x.wrapping_add(0x9e3779b97f4a7c15);
    x = (x ^ (x >> 30)).wrapping_mul(0xbf58476d1ce4e5b9);
    x = (x ^ (x >> 27)).wrapping_mul(0x94d049bb133111eb);
    x ^ (x >> 31)
}

pub fn hash_bytes(seed: u64, b: &[u8]) -> u64 {
    let mut h = seed ^ 0xcbf29ce484222325;
    for &c in b {
        h = (h ^ c as u64).wrapping_mul(0x100000001b3);
    }
    mix(h ^ (b.len() as u64))
}

pub struct Space {
    pub name: String,
    pub bounds: String,
    pub size: u64,
    pub f: Box<dyn Fn(u64, &mut Local) + Sync + Send>,
}

impl Space {
    pub fn new(
        name: &str,
        bounds: &str,
        size: u64,
        f: impl Fn(u64, &mut Local) + Sync + Send + 'static,
    ) -> Space {
        Space {
            name: name.to_string(),
            bounds: bounds.to_string(),
            size,
            f: Box::new(f),
        }
    }
}

#[derive(Clone, Debug)]
pub struct SpaceReport {
    pub name: String,
    pub bounds: String,
    pub size: u64,
    pub evals: u64,
    pub skipped: u64,
    pub nontrivial: u64,
    pub unjudged: u64,
    pub hist: BTreeMap<String, u64>,
    pub viols: Vec<Violation>,
    pub samples: Vec<J>,
    pub distinct_outcomes: u64,
    pub distinct_capped: bool,
    pub chunks: Vec<u64>,
    pub wall_s: f64,
    pub complete: bool,
}

impl SpaceReport {
    pub fn to_json(&self) -> J {
        J::obj(vec![
            ("name", J::s(&self.name)),
            ("bounds", J::s(&self.bounds)),
            ("size", J::u(self.size)),
            ("evaluations", J::u(self.evals)),
            ("skipped_degenerate", J::u(self.skipped)),
            ("nontrivial", J::u(self.nontrivial)),
            ("unjudged", J::u(self.unjudged)),
            (
                "outcomes",
                J::Obj(
                    self.hist
                        .iter()
                        .map(|(k, v)| (k.clone(), J::u(*v)))
                        .collect(),
                ),
            ),
            ("distinct_outcomes", J::u(self.distinct_outcomes)),
            ("distinct_outcomes_capped", J::Bool(self.distinct_capped)),
            ("complete", J::Bool(self.complete)),
            ("wall_s", J::Num((self.wall_s * 1000.0).round() / 1000.0)),
            (
                "violations",
                J::Arr(
                    self.viols
                        .iter()
                        .map(|v| {
                            J::obj(vec![
                                ("sig", J::s(&v.sig)),
                                ("space", J::s(&self.name)),
                                ("index", J::u(v.index)),
                                ("count", J::u(v.count)),
                                ("detail", v.detail.clone()),
                            ])
                        })
                        .collect(),
                ),
            ),
            ("samples", J::Arr(self.samples.clone())),
        ])
    }
}

pub fn threads() -> usize {
    std::env::var("AISVERIF_THREADS")
        .ok()
        .and_then(|s| s.parse().ok())
        .unwrap_or_else(|| {
            std::thread::available_parallelism()
                .map(|n| n.get())
                .unwrap_or(4)
        })
}

/// Seconds a single case may run before the watchdog declares non-termination.
const HANG_SECS: u64 = 120;

pub fn run_space(sp: &Space, want_digest: bool) -> SpaceReport {
    let t0 = Instant::now();
    let n = sp.size;
    let chunk = chunk_size(n);
    let nchunks = n.div_ceil(chunk);
    let next = AtomicU64::new(0);
    let nthreads = threads().min(nchunks.max(1) as usize).max(1);
    let chunks: Vec<AtomicU64> = if want_digest {
        (0..nchunks).map(|_| AtomicU64::new(0)).collect()
    } else {
        Vec::new()
    };
    let cur: Vec<AtomicU64> = (0..nthreads).map(|_| AtomicU64::new(u64::MAX)).collect();
    let done = AtomicBool::new(false);
    let merged = Mutex::new(Local::new());
    let harness_panic: Mutex<Option<String>> = Mutex::new(None);
    // sample indices: first, last, and a few in between
    let sample_idx: Vec<u64> = if n == 0 {
        vec![]
    } else {
        let mut v = vec![0, n / 5, n / 2, (n / 5) * 4, n - 1];
        v.sort();
        v.dedup();
        v
    };
    let name = Arc::new(sp.name.clone());

    std::thread::scope(|s| {
        // watchdog
        {
            let cur = &cur;
            let done = &done;
            let name = name.clone();
            s.spawn(move || {
                let mut last: Vec<(u64, Instant)> =
                    cur.iter().map(|_| (u64::MAX, Instant::now())).collect();
                let mut tick = 0u32;
                while !done.load(Ordering::Relaxed) {
                    std::thread::sleep(Duration::from_millis(2));
                    tick += 1;
                    if tick % 128 != 0 {
                        continue;
                    }
                    for (w, c) in cur.iter().enumerate() {
                        let v = c.load(Ordering::Relaxed);
                        if v == u64::MAX {
                            last[w] = (v, Instant::now());
                            continue;
                        }
                        if v != last[w].0 {
                            last[w] = (v, Instant::now());
                        } else if last[w].1.elapsed() > Duration::from_secs(HANG_SECS) {
                            println!("HANG space={} index={}", name, v);
                            std::process::exit(3);
                        }
                    }
                }
            });
        }
        let mut handles = Vec::new();
        for w in 0..nthreads {
            let next = &next;
            let chunks = &chunks;
            let cur = &cur;
            let merged = &merged;
            let sample_idx = &sample_idx;
            let harness_panic = &harness_panic;
            handles.push(s.spawn(move || {
                let mut l = Local::new();
                l.want_digest = want_digest;
                loop {
                    let c = next.fetch_add(1, Ordering::Relaxed);
                    if c >= nchunks {
                        break;
                    }
                    let lo = c * chunk;
                    let hi = (lo + chunk).min(n);
                    l.chunk_acc = 0;
                    for i in lo..hi {
                        cur[w].store(i, Ordering::Relaxed);
                        l.cur = i;
                        l.evals += 1;
                        l.sample_here = sample_idx.binary_search(&i).is_ok();
                        let r = catch_unwind(AssertUnwindSafe(|| (sp.f)(i, &mut l)));
                        if r.is_err() {
                            let m = LAST_PANIC
                                .with(|p| p.borrow_mut().take())
                                .unwrap_or_default();
                            *harness_panic.lock().unwrap() =
                                Some(format!("harness panic in space {} index {}: {}", sp.name, i, m));
                            cur[w].store(u64::MAX, Ordering::Relaxed);
                            return;
                        }
                    }
                    if want_digest {
                        chunks[c as usize].store(l.chunk_acc, Ordering::Relaxed);
                    }
                }
                cur[w].store(u64::MAX, Ordering::Relaxed);
                merged.lock().unwrap().merge(l);
            }));
        }
        for h in handles {
            let _ = h.join();
        }
        done.store(true, Ordering::Relaxed);
    });
    if let Some(m) = harness_panic.lock().unwrap().take() {
        eprintln!("MACHINERY-ERROR {}", m);
        std::process::exit(2);
    }
    let mut l = merged.into_inner().unwrap();
    l.samples.sort_by_key(|s| s.0);
    let distinct_capped = l.distinct.len() >= MAX_DISTINCT;
    SpaceReport {
        name: sp.name.clone(),
        bounds: sp.bounds.clone(),
        size: n,
        evals: l.evals,
        skipped: l.skipped,
        nontrivial: l.nontrivial,
        unjudged: l.unjudged,
        hist: l.hist.iter().map(|(k, v)| (k.to_string(), *v)).collect(),
        viols: l.viols.into_values().collect(),
        samples: l
            .samples
            .into_iter()
            .map(|(i, mut j)| {
                if let J::Obj(_) = j {
                    j.push("index", J::u(i));
                    j.push("space", J::s(&sp.name));
                }
                j
            })
            .collect(),
        distinct_outcomes: l.distinct.len() as u64,
        distinct_capped,
        chunks: chunks.iter().map(|c| c.load(Ordering::Relaxed)).collect(),
        wall_s: t0.elapsed().as_secs_f64(),
        complete: true,
    }
}

/// Re-execute one case verbosely (replay). Returns the local accumulator.
pub fn run_one(sp: &Space, i: u64) -> Local {
    let mut l = Local::new();
    l.verbose = true;
    l.cur = i;
    l.evals = 1;
    (sp.f)(i, &mut l);
    l
}

/// Mixed-radix index decoder: `Radix::new(i)` then `.take(n)` peels digits least-significant first.
pub struct Radix(pub u64);
impl Radix {
    #[inline]
    pub fn take(&mut self, n: u64) -> u64 {
        let d = self.0 % n;
        self.0 /= n;
        d
    }
}
