#![allow(unreachable_patterns)]
//! Build-independent canonical form of everything the crate returns.
//! (Every `match` on a public enum of the crate ends in a wildcard arm, so that a variant ADDED to the
//! crate — e.g. a decoder wired in for a new message type — is an observable value, not a build
//! failure of the harness.)
//!
//! Only the public API is touched (pub fields, slices, `.as_str()`, public constructors). Enumerated
//! values are mapped back to ITU codes through reverse maps written HERE (`match` on the crate's
//! public variants), so the comparison with the reference tables is independent of the crate's own
//! code → value tables while staying compile-time bound to its API.
use ais::errors::Error;
use ais::messages::aid_to_navigation_report::NavaidType;
use ais::messages::navigation::{Accuracy, Direction, ManeuverIndicator, RateOfTurn};
use ais::messages::position_report::NavigationStatus;
use ais::messages::radio_status::{RadioStatus, SubMessage, SyncState};
use ais::messages::standard_class_b_position_report::CarrierSense;
use ais::messages::static_data_report::MessagePart;
use ais::messages::types::{AssignedMode, Dte, EpfdType, ShipType};
use ais::messages::AisMessage;
use ais::sentence::{AisFragments, AisReportType, AisSentence, TalkerId};

use crate::par::{hash_bytes, mix};

/// Field identifier: name plus up to two list indices (255 = none).
#[derive(Clone, Copy, Debug, PartialEq, Eq)]
pub struct Fid(pub &'static str, pub u8, pub u8);

pub const fn f(name: &'static str) -> Fid {
    Fid(name, 255, 255)
}
pub const fn fi(name: &'static str, i: usize) -> Fid {
    Fid(name, i as u8, 255)
}
pub const fn fij(name: &'static str, i: usize, j: usize) -> Fid {
    Fid(name, i as u8, j as u8)
}

impl std::fmt::Display for Fid {
    fn fmt(&self, fm: &mut std::fmt::Formatter<'_>) -> std::fmt::Result {
        // name may contain up to two '#' placeholders for the indices
        let mut idx = [self.1, self.2].into_iter();
        for c in self.0.chars() {
            if c == '#' {
                write!(fm, "{}", idx.next().unwrap_or(255))?;
            } else {
                write!(fm, "{}", c)?;
            }
        }
        Ok(())
    }
}

#[derive(Clone, Debug, PartialEq)]
pub enum Val {
    /// absent (`None`)
    N,
    U(u64),
    I(i64),
    B(bool),
    F(f32),
    S(String),
    /// static text (variant names, sub-message kinds): no allocation in the hot loops
    T(&'static str),
    Y(Vec<u8>),
}

impl Val {
    pub fn digest(&self) -> u64 {
        match self {
            Val::N => 0x11,
            Val::U(v) => mix(*v ^ 0x22),
            Val::I(v) => mix(*v as u64 ^ 0x33),
            Val::B(b) => 0x44 + *b as u64,
            Val::F(x) => mix(x.to_bits() as u64 ^ 0x55),
            Val::S(s) => hash_bytes(0x66, s.as_bytes()),
            Val::T(s) => hash_bytes(0x66, s.as_bytes()),
            Val::Y(b) => hash_bytes(0x77, b),
        }
    }
    pub fn show(&self) -> String {
        match self {
            Val::N => "None".into(),
            Val::U(v) => format!("{}", v),
            Val::I(v) => format!("{}", v),
            Val::B(b) => format!("{}", b),
            Val::F(x) => format!("{:?}f32", x),
            Val::S(s) => format!("{:?}", s),
            Val::T(s) => format!("{:?}", s),
            Val::Y(b) => format!("bytes[{}]:{}", b.len(), crate::json::hex(&b[..b.len().min(48)])),
        }
    }
}

pub type Fields = Vec<(Fid, Val)>;

// ---------------------------------------------------------------------------------------------
// reverse maps: crate enum -> ITU code. Carriers (Unknown/Reserved(v)) are tagged with 0x100·kind
// so that a named code decoded into a carrier (or vice versa) is visible.
pub const CARRIER: u64 = 0x100;

pub fn rev_nav_status(s: &NavigationStatus) -> u64 {
    use NavigationStatus::*;
    match s {
        UnderWayUsingEngine => 0,
        AtAnchor => 1,
        NotUnderCommand => 2,
        RestrictedManouverability => 3,
        ConstrainedByDraught => 4,
        Moored => 5,
        Aground => 6,
        EngagedInFishing => 7,
        UnderWaySailing => 8,
        ReservedForHSC => 9,
        ReservedForWIG => 10,
        Reserved01 => 11,
        Reserved02 => 12,
        Reserved03 => 13,
        AisSartIsActive => 14,
        Unknown(v) => CARRIER + *v as u64,
        _ => 99 * CARRIER,
    }
}

pub fn rev_maneuver(m: &ManeuverIndicator) -> u64 {
    match m {
        ManeuverIndicator::NoSpecialManeuver => 1,
        ManeuverIndicator::SpecialManeuver => 2,
        ManeuverIndicator::Unknown(v) => CARRIER + *v as u64,
        _ => 99 * CARRIER,
    }
}

pub fn rev_epfd(e: &EpfdType) -> u64 {
    use EpfdType::*;
    match e {
        Gps => 1,
        Glonass => 2,
        CombinedGpsAndGlonass => 3,
        LoranC => 4,
        Chayka => 5,
        IntegratedNavigationSystem => 6,
        Surveyed => 7,
        Galileo => 8,
        Unknown(v) => CARRIER + *v as u64,
        _ => 99 * CARRIER,
    }
}

/// Ship type: named codes map to themselves; carriers to `CARRIER·k + v`, k identifying the carrier.
pub fn rev_ship(s: &ShipType) -> u64 {
    use ShipType::*;
    match s {
        Reserved(v) => CARRIER + *v as u64,
        WingInGround => 20,
        WingInGroundHazardousCategoryA => 21,
        WingInGroundHazardousCategoryB => 22,
        WingInGroundHazardousCategoryC => 23,
        WingInGroundHazardousCategoryD => 24,
        WingInGroundReserved(v) => 2 * CARRIER + *v as u64,
        Fishing => 30,
        Towing => 31,
        TowingLarge => 32,
        Dredging => 33,
        DivingOps => 34,
        MilitaryOps => 35,
        Sailing => 36,
        PleasureCraft => 37,
        HighSpeedCraft => 40,
        HighSpeedCraftHazardousCategoryA => 41,
        HighSpeedCraftHazardousCategoryB => 42,
        HighSpeedCraftHazardousCategoryC => 43,
        HighSpeedCraftHazardousCategoryD => 44,
        HighSpeedCraftReserved(v) => 4 * CARRIER + *v as u64,
        HighSpeedCraftNoAdditionalInformation => 49,
        PilotVessel => 50,
        SearchAndRescueVessel => 51,
        Tug => 52,
        PortTender => 53,
        AntiPollutionEquipment => 54,
        LawEnforcement => 55,
        SpareLocalVessel(v) => 5 * CARRIER + *v as u64,
        MedicalTransport => 58,
        NoncombatantShip => 59,
        Passenger => 60,
        PassengerHazardousCategoryA => 61,
        PassengerHazardousCategoryB => 62,
        PassengerHazardousCategoryC => 63,
        PassengerHazardousCategoryD => 64,
        PassengerReserved(v) => 6 * CARRIER + *v as u64,
        PassengerNoAdditionalInformation => 69,
        Cargo => 70,
        CargoHazardousCategoryA => 71,
        CargoHazardousCategoryB => 72,
        CargoHazardousCategoryC => 73,
        CargoHazardousCategoryD => 74,
        CargoReserved(v) => 7 * CARRIER + *v as u64,
        CargoNoAdditionalInformation => 79,
        Tanker => 80,
        TankerHazardousCategoryA => 81,
        TankerHazardousCategoryB => 82,
        TankerHazardousCategoryC => 83,
        TankerHazardousCategoryD => 84,
        TankerReserved(v) => 8 * CARRIER + *v as u64,
        TankerNoAdditionalInformation => 89,
        Other => 90,
        OtherHazardousCategoryA => 91,
        OtherHazardousCategoryB => 92,
        OtherHazardousCategoryC => 93,
        OtherHazardousCategoryD => 94,
        OtherReserved(v) => 9 * CARRIER + *v as u64,
        OtherNoAdditionalInformation => 99,
        _ => 99 * CARRIER,
    }
}

pub fn rev_navaid(n: &NavaidType) -> u64 {
    use NavaidType::*;
    match n {
        ReferencePoint => 1,
        Racon => 2,
        FixedStructureOffShore => 3,
        Spare => 4,
        LightWithoutSectors => 5,
        LightWithSectors => 6,
        LeadingLightFront => 7,
        LeadingLightRear => 8,
        BeaconCardinalN => 9,
        BeaconCardinalE => 10,
        BeaconCardinalS => 11,
        BeaconCardinalW => 12,
        BeaconPortHand => 13,
        BeaconStarboardHand => 14,
        BeaconPreferredChannelPortHand => 15,
        BeaconPreferredChannelStarboardHand => 16,
        BeaconIsolatedDanger => 17,
        BeaconSafeWater => 18,
        BeaconSpecialMark => 19,
        CardinalMarkN => 20,
        CardinalMarkE => 21,
        CardinalMarkS => 22,
        CardinalMarkW => 23,
        PortHandMark => 24,
        StarboardHandMark => 25,
        PreferredChannelPortHand => 26,
        PreferredChannelStarboardHand => 27,
        IsolatedDanger => 28,
        SafeWater => 29,
        SpecialMark => 30,
        LightVesselOrLanbyOrRigs => 31,
        Unknown(v) => CARRIER + *v as u64,
        _ => 99 * CARRIER,
    }
}

pub fn rev_sync(s: &SyncState) -> u64 {
    match s {
        SyncState::UtcDirect => 0,
        SyncState::UtcIndirect => 1,
        SyncState::BaseStation => 2,
        SyncState::NumberOfReceivedStations => 3,
        SyncState::Unknown(v) => CARRIER + *v as u64,
        _ => 99 * CARRIER,
    }
}

pub fn rev_dte(d: &Dte) -> u64 {
    match d {
        Dte::Ready => 0,
        Dte::NotReady => 1,
        _ => 99 * CARRIER,
    }
}
pub fn rev_acc(a: &Accuracy) -> u64 {
    match a {
        Accuracy::Unaugmented => 0,
        Accuracy::Dgps => 1,
        _ => 99 * CARRIER,
    }
}
pub fn rev_assigned(a: &AssignedMode) -> u64 {
    match a {
        AssignedMode::Autonomous => 0,
        AssignedMode::Assigned => 1,
        _ => 99 * CARRIER,
    }
}
pub fn rev_cs(c: &CarrierSense) -> u64 {
    match c {
        CarrierSense::Sotdma => 0,
        CarrierSense::CarrierSense => 1,
        _ => 99 * CARRIER,
    }
}

fn oe<T>(o: &Option<T>, r: impl Fn(&T) -> u64) -> Val {
    match o {
        None => Val::N,
        Some(v) => Val::U(r(v)),
    }
}
fn of(o: &Option<f32>) -> Val {
    match o {
        None => Val::N,
        Some(v) => Val::F(*v),
    }
}
fn ou<T: Copy + Into<u64>>(o: &Option<T>) -> Val {
    match o {
        None => Val::N,
        Some(v) => Val::U((*v).into()),
    }
}

/// Rate of turn: the raw byte is private. Recover it WITHOUT parsing Debug: invert the public
/// constructor over its 256 inputs (the pre-image must be unique) and cross-check the accessors.
pub fn rot_raw(r: &Option<RateOfTurn>) -> Val {
    match r {
        None => Val::N,
        Some(r) => {
            let mut found: Option<u8> = None;
            let mut n = 0;
            // fast path: invert the accessors, then confirm through the public constructor
            let guess: Option<i32> = match (r.rate(), r.direction()) {
                (Some(x), None) if x == 0.0 => Some(0),
                (Some(x), Some(d)) => {
                    let m = (x.sqrt() * 4.733).round() as i32;
                    Some(if matches!(d, Direction::Port) { -m } else { m })
                }
                (None, Some(Direction::Starboard)) => Some(127),
                (None, Some(Direction::Port)) => Some(-127),
                _ => None,
            };
            if let Some(g) = guess {
                if (-127..=127).contains(&g) && RateOfTurn::parse(g as i8 as u8) == Some(*r) {
                    found = Some(g as i8 as u8);
                    n = 1;
                }
            }
            if n == 0 {
                for b in 0..=255u8 {
                    if RateOfTurn::parse(b) == Some(*r) {
                        n += 1;
                        found.get_or_insert(b);
                    }
                }
            }
            match (found, n) {
                (Some(b), 1) => {
                    let v = b as i8;
                    // accessor cross-check: a mismatch is encoded as an impossible value
                    let dir_ok = match r.direction() {
                        None => v == 0,
                        Some(Direction::Starboard) => v > 0,
                        Some(Direction::Port) => v < 0,
                        _ => false,
                    };
                    let rate_ok = match r.rate() {
                        None => v == 127 || v == -127,
                        Some(x) => {
                            let e = (v as f64 / 4.733) * (v as f64 / 4.733);
                            v != 127 && v != -127 && ((x as f64) - e).abs() <= 1e-4 * e.max(1.0)
                        }
                    };
                    if dir_ok && rate_ok {
                        Val::I(v as i64)
                    } else {
                        Val::I(1000 + v as i64)
                    }
                }
                _ => Val::I(9999),
            }
        }
    }
}

pub fn radio(out: &mut Fields, r: &RadioStatus) {
    match r {
        RadioStatus::Sotdma(s) => {
            out.push((f("radio.kind"), Val::T("sotdma")));
            out.push((f("radio.sync"), Val::U(rev_sync(&s.sync_state))));
            out.push((f("radio.timeout"), Val::U(s.slot_timeout as u64)));
            match &s.sub_message {
                SubMessage::SlotOffset(v) => {
                    out.push((f("radio.sub"), Val::T("slot_offset")));
                    out.push((f("radio.sub.value"), Val::I(*v as i64)));
                }
                SubMessage::UtcHourAndMinute(h, m) => {
                    out.push((f("radio.sub"), Val::T("utc")));
                    out.push((f("radio.sub.hour"), Val::U(*h as u64)));
                    out.push((f("radio.sub.minute"), Val::U(*m as u64)));
                }
                SubMessage::SlotNumber(v) => {
                    out.push((f("radio.sub"), Val::T("slot_number")));
                    out.push((f("radio.sub.value"), Val::I(*v as i64)));
                }
                SubMessage::ReceivedStations(v) => {
                    out.push((f("radio.sub"), Val::T("received_stations")));
                    out.push((f("radio.sub.value"), Val::I(*v as i64)));
                }
                _ => out.push((f("radio.sub"), Val::T("<unknown sub-message>"))),
            }
        }
        RadioStatus::Itdma(i) => {
            out.push((f("radio.kind"), Val::T("itdma")));
            out.push((f("radio.sync"), Val::U(rev_sync(&i.sync_state))));
            out.push((f("radio.increment"), Val::I(i.slot_increment as i64)));
            out.push((f("radio.num_slots"), Val::U(i.num_slots as u64)));
            out.push((f("radio.keep"), Val::B(i.keep)));
        }
        _ => out.push((f("radio.kind"), Val::T("<unknown access scheme>"))),
    }
}

pub fn variant_name(m: &AisMessage) -> &'static str {
    match m {
        AisMessage::PositionReport(_) => "PositionReport",
        AisMessage::BaseStationReport(_) => "BaseStationReport",
        AisMessage::BinaryBroadcastMessage(_) => "BinaryBroadcastMessage",
        AisMessage::Interrogation(_) => "Interrogation",
        AisMessage::StaticAndVoyageRelatedData(_) => "StaticAndVoyageRelatedData",
        AisMessage::DgnssBroadcastBinaryMessage(_) => "DgnssBroadcastBinaryMessage",
        AisMessage::StandardClassBPositionReport(_) => "StandardClassBPositionReport",
        AisMessage::ExtendedClassBPositionReport(_) => "ExtendedClassBPositionReport",
        AisMessage::DataLinkManagementMessage(_) => "DataLinkManagementMessage",
        AisMessage::AidToNavigationReport(_) => "AidToNavigationReport",
        AisMessage::StaticDataReport(_) => "StaticDataReport",
        AisMessage::UtcDateResponse(_) => "UtcDateResponse",
        AisMessage::StandardAircraftPositionReport(_) => "StandardAircraftPositionReport",
        AisMessage::AssignmentModeCommand(_) => "AssignmentModeCommand",
        AisMessage::BinaryAcknowledgeMessage(_) => "BinaryAcknowledgeMessage",
        AisMessage::UtcDateInquiry(_) => "UtcDateInquiry",
        AisMessage::AddressedSafetyRelatedMessage(_) => "AddressedSafetyRelatedMessage",
        AisMessage::SafetyRelatedBroadcastMessage(_) => "SafetyRelatedBroadcastMessage",
        AisMessage::SafetyRelatedAcknowledgment(_) => "SafetyRelatedAcknowledgment",
        AisMessage::LongRangeAisBroadcastMessage(_) => "LongRangeAisBroadcastMessage",
        AisMessage::BinaryAddressedMessage(_) => "BinaryAddressedMessage",
        _ => "<variant unknown to the harness>",
    }
}

macro_rules! hdr {
    ($out:expr, $m:expr) => {
        $out.push((f("message_type"), Val::U($m.message_type as u64)));
        $out.push((f("repeat_indicator"), Val::U($m.repeat_indicator as u64)));
        $out.push((f("mmsi"), Val::U($m.mmsi as u64)));
    };
}

macro_rules! dims {
    ($out:expr, $m:expr) => {
        $out.push((f("dimension_to_bow"), Val::U($m.dimension_to_bow as u64)));
        $out.push((f("dimension_to_stern"), Val::U($m.dimension_to_stern as u64)));
        $out.push((f("dimension_to_port"), Val::U($m.dimension_to_port as u64)));
        $out.push((
            f("dimension_to_starboard"),
            Val::U($m.dimension_to_starboard as u64),
        ));
    };
}

/// Flatten a decoded message into `(field id, value)` pairs. The first entry is always `variant`.
pub fn canon_msg(m: &AisMessage, out: &mut Fields) {
    out.clear();
    out.push((f("variant"), Val::T(variant_name(m))));
    match m {
        AisMessage::PositionReport(p) => {
            hdr!(out, p);
            out.push((f("navigation_status"), oe(&p.navigation_status, rev_nav_status)));
            out.push((f("rate_of_turn"), rot_raw(&p.rate_of_turn)));
            out.push((f("speed_over_ground"), of(&p.speed_over_ground)));
            out.push((f("position_accuracy"), Val::U(rev_acc(&p.position_accuracy))));
            out.push((f("longitude"), of(&p.longitude)));
            out.push((f("latitude"), of(&p.latitude)));
            out.push((f("course_over_ground"), of(&p.course_over_ground)));
            out.push((f("true_heading"), ou(&p.true_heading)));
            out.push((f("timestamp"), Val::U(p.timestamp as u64)));
            out.push((f("maneuver_indicator"), oe(&p.maneuver_indicator, rev_maneuver)));
            out.push((f("raim"), Val::B(p.raim)));
            radio(out, &p.radio_status);
        }
        AisMessage::BaseStationReport(p) => {
            hdr!(out, p);
            out.push((f("year"), ou(&p.year)));
            out.push((f("month"), ou(&p.month)));
            out.push((f("day"), ou(&p.day)));
            out.push((f("hour"), Val::U(p.hour as u64)));
            out.push((f("minute"), ou(&p.minute)));
            out.push((f("second"), ou(&p.second)));
            out.push((f("fix_quality"), Val::U(rev_acc(&p.fix_quality))));
            out.push((f("longitude"), of(&p.longitude)));
            out.push((f("latitude"), of(&p.latitude)));
            out.push((f("epfd_type"), oe(&p.epfd_type, rev_epfd)));
            out.push((f("raim"), Val::B(p.raim)));
            radio(out, &p.radio_status);
        }
        AisMessage::UtcDateResponse(p) => {
            hdr!(out, p);
            out.push((f("year"), ou(&p.year)));
            out.push((f("month"), ou(&p.month)));
            out.push((f("day"), ou(&p.day)));
            out.push((f("hour"), Val::U(p.hour as u64)));
            out.push((f("minute"), ou(&p.minute)));
            out.push((f("second"), ou(&p.second)));
            out.push((f("fix_quality"), Val::U(rev_acc(&p.fix_quality))));
            out.push((f("longitude"), of(&p.longitude)));
            out.push((f("latitude"), of(&p.latitude)));
            out.push((f("epfd_type"), oe(&p.epfd_type, rev_epfd)));
            out.push((f("raim"), Val::B(p.raim)));
            radio(out, &p.radio_status);
        }
        AisMessage::StaticAndVoyageRelatedData(p) => {
            hdr!(out, p);
            out.push((f("ais_version"), Val::U(p.ais_version as u64)));
            out.push((f("imo_number"), Val::U(p.imo_number as u64)));
            out.push((f("callsign"), Val::S(p.callsign.as_str().to_string())));
            out.push((f("vessel_name"), Val::S(p.vessel_name.as_str().to_string())));
            out.push((f("ship_type"), oe(&p.ship_type, rev_ship)));
            dims!(out, p);
            out.push((f("epfd_type"), oe(&p.epfd_type, rev_epfd)));
            out.push((f("eta_month_utc"), ou(&p.eta_month_utc)));
            out.push((f("eta_day_utc"), ou(&p.eta_day_utc)));
            out.push((f("eta_hour_utc"), Val::U(p.eta_hour_utc as u64)));
            out.push((f("eta_minute_utc"), ou(&p.eta_minute_utc)));
            out.push((f("draught"), Val::F(p.draught)));
            out.push((f("destination"), Val::S(p.destination.as_str().to_string())));
            out.push((f("dte"), Val::U(rev_dte(&p.dte))));
        }
        AisMessage::BinaryAddressedMessage(p) => {
            hdr!(out, p);
            out.push((f("seqno"), Val::U(p.seqno as u64)));
            out.push((f("dest_mmsi"), Val::U(p.dest_mmsi as u64)));
            out.push((f("retransmit"), Val::B(p.retransmit)));
            out.push((f("dac"), Val::U(p.dac as u64)));
            out.push((f("fid"), Val::U(p.fid as u64)));
            out.push((f("data"), Val::Y(p.data[..].to_vec())));
        }
        AisMessage::BinaryAcknowledgeMessage(p) => {
            hdr!(out, p);
            out.push((f("acks.len"), Val::U(p.acks.len() as u64)));
            for (i, a) in p.acks.iter().enumerate() {
                out.push((fi("acks[#].mmsi", i), Val::U(a.mmsi as u64)));
                out.push((fi("acks[#].seq_num", i), Val::U(a.seq_num as u64)));
            }
        }
        AisMessage::SafetyRelatedAcknowledgment(p) => {
            hdr!(out, p);
            out.push((f("acks.len"), Val::U(p.acks.len() as u64)));
            for (i, a) in p.acks.iter().enumerate() {
                out.push((fi("acks[#].mmsi", i), Val::U(a.mmsi as u64)));
                out.push((fi("acks[#].seq_num", i), Val::U(a.seq_num as u64)));
            }
        }
        AisMessage::BinaryBroadcastMessage(p) => {
            hdr!(out, p);
            out.push((f("dac"), Val::U(p.dac as u64)));
            out.push((f("fid"), Val::U(p.fid as u64)));
            out.push((f("data"), Val::Y(p.data[..].to_vec())));
        }
        AisMessage::StandardAircraftPositionReport(p) => {
            hdr!(out, p);
            out.push((f("altitude"), ou(&p.altitude)));
            out.push((f("speed_over_ground"), of(&p.speed_over_ground)));
            out.push((f("position_accuracy"), Val::U(rev_acc(&p.position_accuracy))));
            out.push((f("longitude"), of(&p.longitude)));
            out.push((f("latitude"), of(&p.latitude)));
            out.push((f("course_over_ground"), of(&p.course_over_ground)));
            out.push((f("timestamp"), Val::U(p.timestamp as u64)));
            out.push((f("dte"), Val::U(rev_dte(&p.dte))));
            out.push((f("assigned_mode"), Val::U(rev_assigned(&p.assigned_mode))));
            out.push((f("raim"), Val::B(p.raim)));
            radio(out, &p.radio_status);
        }
        AisMessage::UtcDateInquiry(p) => {
            hdr!(out, p);
            out.push((f("dest_mmsi"), Val::U(p.dest_mmsi as u64)));
        }
        AisMessage::AddressedSafetyRelatedMessage(p) => {
            hdr!(out, p);
            out.push((f("seqno"), Val::U(p.seqno as u64)));
            out.push((f("dest_mmsi"), Val::U(p.dest_mmsi as u64)));
            out.push((f("retransmit"), Val::B(p.retransmit)));
            out.push((f("text"), Val::S(p.text.as_str().to_string())));
        }
        AisMessage::SafetyRelatedBroadcastMessage(p) => {
            hdr!(out, p);
            out.push((f("text"), Val::S(p.text.as_str().to_string())));
        }
        AisMessage::Interrogation(p) => {
            hdr!(out, p);
            out.push((f("stations.len"), Val::U(p.stations.len() as u64)));
            for (i, s) in p.stations.iter().enumerate() {
                out.push((fi("stations[#].mmsi", i), Val::U(s.mmsi as u64)));
                out.push((
                    fi("stations[#].messages.len", i),
                    Val::U(s.messages.len() as u64),
                ));
                for (j, m) in s.messages.iter().enumerate() {
                    out.push((
                        fij("stations[#].messages[#].message_type", i, j),
                        Val::U(m.message_type as u64),
                    ));
                    out.push((
                        fij("stations[#].messages[#].slot_offset", i, j),
                        ou(&m.slot_offset),
                    ));
                }
            }
        }
        AisMessage::AssignmentModeCommand(p) => {
            hdr!(out, p);
            out.push((f("mmsi1"), Val::U(p.mmsi1 as u64)));
            out.push((f("offset1"), Val::U(p.offset1 as u64)));
            out.push((f("increment1"), Val::U(p.increment1 as u64)));
            out.push((f("mmsi2"), ou(&p.mmsi2)));
            out.push((f("offset2"), ou(&p.offset2)));
            out.push((f("increment2"), ou(&p.increment2)));
        }
        AisMessage::DgnssBroadcastBinaryMessage(p) => {
            hdr!(out, p);
            out.push((f("longitude"), of(&p.longitude)));
            out.push((f("latitude"), of(&p.latitude)));
            out.push((f("payload.message_type"), Val::U(p.payload.message_type as u64)));
            out.push((f("payload.station_id"), Val::U(p.payload.station_id as u64)));
            out.push((f("payload.z_count"), Val::U(p.payload.z_count as u64)));
            out.push((
                f("payload.sequence_number"),
                Val::U(p.payload.sequence_number as u64),
            ));
            out.push((f("payload.n"), Val::U(p.payload.n as u64)));
            out.push((f("payload.health"), Val::U(p.payload.health as u64)));
            out.push((f("payload.data"), Val::Y(p.payload.data[..].to_vec())));
        }
        AisMessage::StandardClassBPositionReport(p) => {
            hdr!(out, p);
            out.push((f("speed_over_ground"), of(&p.speed_over_ground)));
            out.push((f("position_accuracy"), Val::U(rev_acc(&p.position_accuracy))));
            out.push((f("longitude"), of(&p.longitude)));
            out.push((f("latitude"), of(&p.latitude)));
            out.push((f("course_over_ground"), of(&p.course_over_ground)));
            out.push((f("true_heading"), ou(&p.true_heading)));
            out.push((f("timestamp"), Val::U(p.timestamp as u64)));
            out.push((f("cs_unit"), Val::U(rev_cs(&p.cs_unit))));
            out.push((f("has_display"), Val::B(p.has_display)));
            out.push((f("has_dsc"), Val::B(p.has_dsc)));
            out.push((f("whole_band"), Val::B(p.whole_band)));
            out.push((f("accepts_message_22"), Val::B(p.accepts_message_22)));
            out.push((f("assigned_mode"), Val::U(rev_assigned(&p.assigned_mode))));
            out.push((f("raim"), Val::B(p.raim)));
            radio(out, &p.radio_status);
        }
        AisMessage::ExtendedClassBPositionReport(p) => {
            hdr!(out, p);
            out.push((f("speed_over_ground"), of(&p.speed_over_ground)));
            out.push((f("position_accuracy"), Val::U(rev_acc(&p.position_accuracy))));
            out.push((f("longitude"), of(&p.longitude)));
            out.push((f("latitude"), of(&p.latitude)));
            out.push((f("course_over_ground"), of(&p.course_over_ground)));
            out.push((f("true_heading"), ou(&p.true_heading)));
            out.push((f("timestamp"), Val::U(p.timestamp as u64)));
            out.push((f("name"), Val::S(p.name.as_str().to_string())));
            out.push((
                f("type_of_ship_and_cargo"),
                oe(&p.type_of_ship_and_cargo, rev_ship),
            ));
            dims!(out, p);
            out.push((f("epfd_type"), oe(&p.epfd_type, rev_epfd)));
            out.push((f("raim"), Val::B(p.raim)));
            out.push((f("dte"), Val::U(rev_dte(&p.dte))));
            out.push((f("assigned_mode"), Val::U(rev_assigned(&p.assigned_mode))));
        }
        AisMessage::DataLinkManagementMessage(p) => {
            hdr!(out, p);
            out.push((f("reservations.len"), Val::U(p.reservations.len() as u64)));
            for (i, r) in p.reservations.iter().enumerate() {
                out.push((fi("reservations[#].offset", i), Val::U(r.offset as u64)));
                out.push((fi("reservations[#].num_slots", i), Val::U(r.num_slots as u64)));
                out.push((fi("reservations[#].timeout", i), Val::U(r.timeout as u64)));
                out.push((fi("reservations[#].increment", i), Val::U(r.increment as u64)));
            }
        }
        AisMessage::AidToNavigationReport(p) => {
            hdr!(out, p);
            out.push((f("aid_type"), oe(&p.aid_type, rev_navaid)));
            out.push((f("name"), Val::S(p.name.as_str().to_string())));
            out.push((f("accuracy"), Val::U(rev_acc(&p.accuracy))));
            out.push((f("longitude"), of(&p.longitude)));
            out.push((f("latitude"), of(&p.latitude)));
            dims!(out, p);
            out.push((f("epfd_type"), oe(&p.epfd_type, rev_epfd)));
            out.push((f("utc_second"), Val::U(p.utc_second as u64)));
            out.push((f("off_position"), Val::B(p.off_position)));
            out.push((f("regional_reserved"), Val::U(p.regional_reserved as u64)));
            out.push((f("raim"), Val::B(p.raim)));
            out.push((f("virtual_aid"), Val::B(p.virtual_aid)));
            out.push((f("assigned_mode"), Val::B(p.assigned_mode)));
        }
        AisMessage::StaticDataReport(p) => {
            hdr!(out, p);
            match &p.message_part {
                MessagePart::PartA { vessel_name, .. } => {
                    out.push((f("part"), Val::U(0)));
                    out.push((f("vessel_name"), Val::S(vessel_name.as_str().to_string())));
                }
                MessagePart::PartB {
                    ship_type,
                    vendor_id,
                    model_serial,
                    unit_model_code,
                    serial_number,
                    callsign,
                    dimension_to_bow,
                    dimension_to_stern,
                    dimension_to_port,
                    dimension_to_starboard,
                    ..
                } => {
                    out.push((f("part"), Val::U(1)));
                    out.push((f("ship_type"), oe(ship_type, rev_ship)));
                    out.push((f("vendor_id"), Val::S(vendor_id.as_str().to_string())));
                    out.push((f("model_serial"), Val::S(model_serial.as_str().to_string())));
                    out.push((f("unit_model_code"), Val::U(*unit_model_code as u64)));
                    out.push((f("serial_number"), Val::U(*serial_number as u64)));
                    out.push((f("callsign"), Val::S(callsign.as_str().to_string())));
                    out.push((f("dimension_to_bow"), Val::U(*dimension_to_bow as u64)));
                    out.push((f("dimension_to_stern"), Val::U(*dimension_to_stern as u64)));
                    out.push((f("dimension_to_port"), Val::U(*dimension_to_port as u64)));
                    out.push((
                        f("dimension_to_starboard"),
                        Val::U(*dimension_to_starboard as u64),
                    ));
                }
                MessagePart::Unknown(v) => {
                    out.push((f("part"), Val::U(CARRIER + *v as u64)));
                }
                _ => out.push((f("part"), Val::U(99 * CARRIER))),
            }
        }
        AisMessage::LongRangeAisBroadcastMessage(p) => {
            hdr!(out, p);
            out.push((f("position_accuracy"), Val::U(rev_acc(&p.position_accuracy))));
            out.push((f("raim"), Val::B(p.raim)));
            out.push((f("navigation_status"), oe(&p.navigation_status, rev_nav_status)));
            out.push((f("longitude"), of(&p.longitude)));
            out.push((f("latitude"), of(&p.latitude)));
            out.push((f("speed_over_ground"), of(&p.speed_over_ground)));
            out.push((f("course_over_ground"), of(&p.course_over_ground)));
            out.push((f("gnss_position_status"), Val::B(p.gnss_position_status)));
        }
        _ => {}
    }
}

pub fn fields_digest(fl: &Fields) -> u64 {
    let mut h = 0x5151u64;
    for (id, v) in fl {
        let nb = id.0.as_bytes();
        let name = (nb.len() as u64) << 32 | (nb[0] as u64) << 24 | (nb[nb.len() - 1] as u64) << 16 | (id.1 as u64) << 8 | id.2 as u64;
        h = mix(h ^ name ^ v.digest().rotate_left(17));
    }
    h
}

pub fn fields_show(fl: &Fields) -> String {
    let mut s = String::new();
    for (i, (id, v)) in fl.iter().enumerate() {
        if i > 0 {
            s.push_str(", ");
        }
        s.push_str(&format!("{}={}", id, v.show()));
    }
    s
}

// ---------------------------------------------------------------------------------------------
// errors and sentences

#[derive(Clone, Debug, PartialEq, Eq)]
pub enum ErrCat {
    Nmea(String),
    Checksum { expected: u8, found: u8 },
}

impl ErrCat {
    pub fn from(e: &Error) -> ErrCat {
        match e {
            Error::Nmea { msg, .. } => ErrCat::Nmea(format!("{}", msg)),
            Error::Checksum { expected, found, .. } => ErrCat::Checksum {
                expected: *expected,
                found: *found,
            },
            _ => ErrCat::Nmea("<error variant unknown to the harness>".to_string()),
        }
    }
    /// Category digest: message texts legitimately differ between builds.
    pub fn digest(&self) -> u64 {
        match self {
            ErrCat::Nmea(_) => 0xE1,
            ErrCat::Checksum { expected, found } => {
                mix(0xE2 ^ ((*expected as u64) << 8) ^ ((*found as u64) << 16))
            }
        }
    }
    pub fn show(&self) -> String {
        match self {
            ErrCat::Nmea(m) => format!("Err(Nmea: {})", m),
            ErrCat::Checksum { expected, found } => {
                format!("Err(Checksum expected=0x{:02x} found=0x{:02x})", expected, found)
            }
        }
    }
    pub fn is_checksum(&self) -> bool {
        matches!(self, ErrCat::Checksum { .. })
    }
}

pub fn talker_str(t: &TalkerId) -> &'static str {
    match t {
        TalkerId::AB => "AB",
        TalkerId::AD => "AD",
        TalkerId::AI => "AI",
        TalkerId::AN => "AN",
        TalkerId::AR => "AR",
        TalkerId::AS => "AS",
        TalkerId::AT => "AT",
        TalkerId::AX => "AX",
        TalkerId::BS => "BS",
        TalkerId::SA => "SA",
        TalkerId::Unknown => "??",
        _ => "<talker unknown to the harness>",
    }
}

pub fn report_str(t: &AisReportType) -> &'static str {
    match t {
        AisReportType::VDM => "VDM",
        AisReportType::VDO => "VDO",
        AisReportType::Unknown => "???",
        _ => "<report type unknown to the harness>",
    }
}

/// Build-independent copy of an `AisSentence` (the decoded message is kept as canonical fields).
#[derive(Clone, Debug, PartialEq)]
pub struct Sent {
    pub talker: &'static str,
    pub rtype: &'static str,
    pub n: u8,
    pub k: u8,
    pub id: Option<u8>,
    pub chan: Option<char>,
    pub data: Vec<u8>,
    pub fill: u8,
    pub mtype: u8,
    pub msg: Option<Fields>,
}

impl Sent {
    pub fn from(s: &AisSentence) -> Sent {
        Sent {
            talker: talker_str(&s.talker_id),
            rtype: report_str(&s.report_type),
            n: s.num_fragments,
            k: s.fragment_number,
            id: s.message_id,
            chan: s.channel,
            data: s.data[..].to_vec(),
            fill: s.fill_bit_count,
            mtype: s.message_type,
            msg: s.message.as_ref().map(|m| {
                let mut fl = Vec::new();
                canon_msg(m, &mut fl);
                fl
            }),
        }
    }
    pub fn digest(&self) -> u64 {
        let mut h = hash_bytes(1, self.talker.as_bytes());
        h = mix(h ^ hash_bytes(2, self.rtype.as_bytes()));
        h = mix(h ^ ((self.n as u64) << 8 | self.k as u64));
        h = mix(h ^ self.id.map(|v| v as u64 + 1).unwrap_or(0));
        h = mix(h ^ self.chan.map(|v| v as u64 + 1).unwrap_or(0));
        h = mix(h ^ hash_bytes(3, &self.data));
        h = mix(h ^ ((self.fill as u64) << 8 | self.mtype as u64));
        h = mix(h ^ self.msg.as_ref().map(fields_digest).unwrap_or(7));
        h
    }
    pub fn show(&self) -> String {
        format!(
            "{{talker={} type={} n={} k={} id={:?} chan={:?} fill={} mtype={} data={:?} msg={}}}",
            self.talker,
            self.rtype,
            self.n,
            self.k,
            self.id,
            self.chan,
            self.fill,
            self.mtype,
            crate::json::esc_bytes(&self.data[..self.data.len().min(96)]),
            match &self.msg {
                None => "None".to_string(),
                Some(f) => format!("Some({})", fields_show(f)),
            }
        )
    }
}

/// Outcome of one `AisParser::parse` call.
#[derive(Clone, Debug, PartialEq)]
pub enum Out {
    Complete(Sent),
    Incomplete(Sent),
    Err(ErrCat),
    Panic(String),
}

impl Out {
    pub fn from(r: Result<ais::errors::Result<AisFragments>, String>) -> Out {
        match r {
            Err(p) => Out::Panic(p),
            Ok(Err(e)) => Out::Err(ErrCat::from(&e)),
            Ok(Ok(AisFragments::Complete(s))) => Out::Complete(Sent::from(&s)),
            Ok(Ok(AisFragments::Incomplete(s))) => Out::Incomplete(Sent::from(&s)),
            Ok(Ok(_)) => Out::Panic("<result variant unknown to the harness>".to_string()),
        }
    }
    pub fn class(&self) -> &'static str {
        match self {
            Out::Complete(_) => "complete",
            Out::Incomplete(_) => "incomplete",
            Out::Err(ErrCat::Nmea(_)) => "err_nmea",
            Out::Err(ErrCat::Checksum { .. }) => "err_checksum",
            Out::Panic(_) => "panic",
        }
    }
    pub fn digest(&self) -> u64 {
        match self {
            Out::Complete(s) => mix(s.digest() ^ 0xC0),
            Out::Incomplete(s) => mix(s.digest() ^ 0x1C),
            Out::Err(e) => e.digest(),
            Out::Panic(_) => 0xDEAD,
        }
    }
    pub fn show(&self) -> String {
        match self {
            Out::Complete(s) => format!("Complete{}", s.show()),
            Out::Incomplete(s) => format!("Incomplete{}", s.show()),
            Out::Err(e) => e.show(),
            Out::Panic(p) => format!("PANIC({})", p),
        }
    }
    pub fn is_ok(&self) -> bool {
        matches!(self, Out::Complete(_) | Out::Incomplete(_))
    }
    pub fn sent(&self) -> Option<&Sent> {
        match self {
            Out::Complete(s) | Out::Incomplete(s) => Some(s),
            _ => None,
        }
    }
}
