//! The subject: thin, panic-capturing wrappers around the crate's public API.
use crate::canon::{canon_msg, ErrCat, Fields, Out};
use crate::par::guard;
use ais::sentence::AisParser;

pub const BUILD: &str = if cfg!(feature = "std") {
    "std"
} else if cfg!(feature = "alloc") {
    "alloc"
} else {
    "none"
};
pub const NOALLOC: bool = cfg!(all(not(feature = "std"), not(feature = "alloc")));
pub const PROFILE: &str = if cfg!(debug_assertions) { "verif(checked)" } else { "release" };

pub struct Parser(pub AisParser);

impl Parser {
    pub fn new() -> Parser {
        Parser(AisParser::new())
    }
    #[inline]
    pub fn parse(&mut self, line: &[u8], decode: bool) -> Out {
        let p = &mut self.0;
        Out::from(guard(move || p.parse(line, decode)))
    }
    /// The parser's own Debug rendering (prints all private fields); used for equality only.
    pub fn state(&self) -> String {
        format!("{:?}", self.0)
    }
}

#[derive(Clone, Debug, PartialEq)]
pub enum UnarmorOut {
    Ok(Vec<u8>),
    Err(ErrCat),
    Panic(String),
}

#[inline]
pub fn unarmor(data: &[u8], fill: usize) -> UnarmorOut {
    match guard(|| ais::messages::unarmor(data, fill)) {
        Err(p) => UnarmorOut::Panic(p),
        Ok(Err(e)) => UnarmorOut::Err(ErrCat::from(&e)),
        Ok(Ok(v)) => UnarmorOut::Ok(v[..].to_vec()),
    }
}

#[derive(Clone, Debug, PartialEq)]
pub enum DecodeOut {
    Ok(Fields),
    Err(ErrCat),
    Panic(String),
}

impl DecodeOut {
    pub fn class(&self) -> &'static str {
        match self {
            DecodeOut::Ok(_) => "ok",
            DecodeOut::Err(_) => "err",
            DecodeOut::Panic(_) => "panic",
        }
    }
    pub fn show(&self) -> String {
        match self {
            DecodeOut::Ok(f) => format!("Ok({})", crate::canon::fields_show(f)),
            DecodeOut::Err(e) => e.show(),
            DecodeOut::Panic(p) => format!("PANIC({})", p),
        }
    }
    pub fn digest(&self) -> u64 {
        match self {
            DecodeOut::Ok(f) => crate::canon::fields_digest(f),
            DecodeOut::Err(e) => e.digest(),
            DecodeOut::Panic(_) => 0xDEAD,
        }
    }
}

/// `messages::parse` on an unarmored payload, canonicalised.
#[inline]
pub fn decode(payload: &[u8]) -> DecodeOut {
    match guard(|| ais::messages::parse(payload)) {
        Err(p) => DecodeOut::Panic(p),
        Ok(Err(e)) => DecodeOut::Err(ErrCat::from(&e)),
        Ok(Ok(m)) => {
            let mut fl = Vec::with_capacity(32);
            // canonicalisation calls public accessors of the crate (RateOfTurn): guard it too
            match guard(|| {
                canon_msg(&m, &mut fl);
            }) {
                Ok(()) => DecodeOut::Ok(fl),
                Err(p) => DecodeOut::Panic(format!("in accessor: {}", p)),
            }
        }
    }
}
