//! Command-line front end of the aisverif library (see lib.rs).
use aisverif::json::J;
use aisverif::*;
use std::time::Instant;

fn usage() -> ! {
    eprintln!(
        "usage: aisverif run <PROP> <quick|thorough> <out.json> [--digests <file>]\n       aisverif case <PROP> <tier> <space> <index>\n       aisverif list <PROP> <tier>\n       aisverif hist <decode:0|1> <hexline>...\n       aisverif info"
    );
    std::process::exit(2)
}

fn main() {
    par::install_panic_hook();
    let args: Vec<String> = std::env::args().collect();
    if args.len() < 2 {
        usage();
    }
    match args[1].as_str() {
        "info" => {
            println!("build={} profile={} threads={}", subj::BUILD, subj::PROFILE, par::threads());
        }
        "list" => {
            if args.len() < 4 {
                usage();
            }
            for s in props::spaces(&args[2], tier_of(&args[3])) {
                println!("{}\t{}\t{}", s.name, s.size, s.bounds);
            }
        }
        "run" => {
            if args.len() < 5 {
                usage();
            }
            let prop = &args[2];
            let tier = tier_of(&args[3]);
            let want_digest = args.iter().any(|a| a == "--digests");
            let only: Option<&String> = args.iter().position(|a| a == "--only").and_then(|p| args.get(p + 1));
            let t0 = Instant::now();
            let mut reports = Vec::new();
            for sp in props::spaces(prop, tier) {
                if let Some(o) = only {
                    if !sp.name.starts_with(o.as_str()) {
                        continue;
                    }
                }
                let r = par::run_space(&sp, want_digest);
                eprintln!(
                    "[{} {} {}] {:<34} size={:>11} evals={:>11} nontrivial={:>11} viol_sigs={} {:.2}s",
                    prop,
                    subj::BUILD,
                    subj::PROFILE,
                    r.name,
                    r.size,
                    r.evals,
                    r.nontrivial,
                    r.viols.len(),
                    r.wall_s
                );
                reports.push(r);
            }
            let explorer = if only.is_none() { props::explore(prop, tier) } else { None };
            let mut out = J::obj(vec![
                ("property", J::s(prop)),
                ("tier", J::s(&args[3])),
                ("build", J::s(subj::BUILD)),
                ("profile", J::s(subj::PROFILE)),
                ("threads", J::u(par::threads() as u64)),
                ("spaces", J::Arr(reports.iter().map(|r| r.to_json()).collect())),
                ("wall_s", J::Num(t0.elapsed().as_secs_f64())),
            ]);
            if let Some(e) = explorer {
                out.push("explorer", e);
            }
            out.push(
                "representation_differences",
                J::obj(vec![
                    (
                        "confirmation_time_ms",
                        J::u(explore::CONFIRM_SPENT_US.load(std::sync::atomic::Ordering::Relaxed) / 1000),
                    ),
                    (
                        "unconfirmed_after_budget",
                        J::u(explore::CONFIRM_SKIPPED.load(std::sync::atomic::Ordering::Relaxed)),
                    ),
                ]),
            );
            if want_digest {
                out.push(
                    "chunk_digests",
                    J::Arr(
                        reports
                            .iter()
                            .map(|r| {
                                J::obj(vec![
                                    ("space", J::s(&r.name)),
                                    (
                                        "chunks",
                                        J::Arr(r.chunks.iter().map(|c| J::s(format!("{:016x}", c))).collect()),
                                    ),
                                ])
                            })
                            .collect(),
                    ),
                );
            }
            std::fs::write(&args[4], out.render()).unwrap_or_else(|e| {
                eprintln!("cannot write {}: {}", args[4], e);
                std::process::exit(2)
            });
        }
        "case" => {
            if args.len() < 6 {
                usage();
            }
            let prop = &args[2];
            let tier = tier_of(&args[3]);
            let idx: u64 = args[5].parse().unwrap_or_else(|_| usage());
            let sp = props::spaces(prop, tier)
                .into_iter()
                .find(|s| s.name == args[4])
                .unwrap_or_else(|| {
                    eprintln!("no space {} in {} {:?}", args[4], prop, tier);
                    std::process::exit(2)
                });
            if idx >= sp.size {
                eprintln!("index out of range (size {})", sp.size);
                std::process::exit(2);
            }
            let l = par::run_one(&sp, idx);
            for (_, s) in &l.samples {
                println!("CASE {}", s.render());
            }
            if l.skipped > 0 {
                println!("(degenerate index: no case)");
            }
            for v in l.viols.values() {
                println!("VIOLATES sig={} detail={}", v.sig, v.detail.render());
            }
            println!("build={} profile={} violations={}", subj::BUILD, subj::PROFILE, l.viols.len());
            std::process::exit(if l.viols.is_empty() { 0 } else { 1 });
        }
        "dump" => {
            // dump <PROP> <tier> <space> <chunk>: one line per case of the chunk: index, outcome digests, sample
            if args.len() < 6 {
                usage();
            }
            let tier = tier_of(&args[3]);
            let chunk: u64 = args[5].parse().unwrap_or_else(|_| usage());
            let sp = props::spaces(&args[2], tier)
                .into_iter()
                .find(|s| s.name == args[4])
                .unwrap_or_else(|| std::process::exit(2));
            let cs = par::chunk_size(sp.size);
            let lo = chunk * cs;
            let hi = (lo + cs).min(sp.size);
            for i in lo..hi {
                let l = par::run_one(&sp, i);
                let dig: Vec<String> = l.trace.iter().map(|d| format!("{:x}", d)).collect();
                let smp = l.samples.first().map(|(_, j)| j.render()).unwrap_or_default();
                println!("{}\t{}\t{}", i, dig.join(","), smp);
            }
        }
        "bench" => {
            // micro-benchmark of the message oracle's components (single thread)
            let n = 1_000_000u64;
            let mut p = vec![0u8; 21];
            spec::msg::set_bits(&mut p, 0, 6, 1);
            let t = Instant::now();
            let mut acc = 0u64;
            for i in 0..n {
                spec::msg::set_bits(&mut p, 8, 30, i);
                if let Ok(m) = ais::messages::parse(&p) {
                    acc += matches!(m, ais::messages::AisMessage::PositionReport(_)) as u64;
                }
            }
            println!("decode only      {:>6.0} ns/case ({})", t.elapsed().as_nanos() as f64 / n as f64, acc);
            let t = Instant::now();
            for i in 0..n {
                spec::msg::set_bits(&mut p, 8, 30, i);
                if let subj::DecodeOut::Ok(f) = subj::decode(&p) {
                    acc += f.len() as u64;
                }
            }
            println!("decode + canon   {:>6.0} ns/case ({})", t.elapsed().as_nanos() as f64 / n as f64, acc);
            let t = Instant::now();
            for i in 0..n {
                spec::msg::set_bits(&mut p, 8, 30, i);
                acc += spec::msg::expect(&p).fields.len() as u64;
            }
            println!("expect           {:>6.0} ns/case ({})", t.elapsed().as_nanos() as f64 / n as f64, acc);
            let t = Instant::now();
            let mut mm = Vec::new();
            for i in 0..n {
                spec::msg::set_bits(&mut p, 8, 30, i);
                let e = spec::msg::expect(&p);
                if let subj::DecodeOut::Ok(f) = subj::decode(&p) {
                    spec::msg::compare(&e, &f, &mut mm);
                    acc += mm.len() as u64 + canon::fields_digest(&f) % 2;
                }
            }
            println!("all + compare    {:>6.0} ns/case ({})", t.elapsed().as_nanos() as f64 / n as f64, acc);
        }
        "conform" => {
            // conform <file>: replay model behaviours (one per line: steps `n.k.i/outcome/d1+d2+..`)
            // on the real parser; the outcome class and the delivered payload must be the model's.
            if args.len() < 3 {
                usage();
            }
            std::process::exit(props::conform(&args[2]));
        }
        "explore" => {
            // explore <PROP> <tier>: only the explicit-state part of a check
            if args.len() < 4 {
                usage();
            }
            match props::explore(&args[2], tier_of(&args[3])) {
                Some(j) => println!("{}", j.render()),
                None => println!("{{}}"),
            }
        }
        "hist" => {
            if args.len() < 4 {
                usage();
            }
            let code = props::replay_history(&args[2..]);
            std::process::exit(code);
        }
        _ => usage(),
    }
}
