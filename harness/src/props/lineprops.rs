//! Sentence-level properties on single lines (fresh parser): C02, C07, C08, C19, and the line
//! spaces shared with C01 / C18 (DESIGN.md §3.1).
use crate::canon::Out;
use crate::explore::{judge_step, Findings};
use crate::json::{esc_bytes, hex, J};
use crate::par::{Local, Radix, Space};
use crate::spec::asm::{self, Expect, MState};
use crate::spec::line::{recognise, sentence, Mk};
use crate::spec::unarmor::{armor_char, sixbit};
use crate::subj::{self, Parser};
use crate::Tier;

fn describe(line: &[u8], decode: bool, exp: &Expect, out: &Out, why: &str) -> J {
    J::obj(vec![
        ("line", J::s(esc_bytes(&line[..line.len().min(600)]))),
        ("line_hex", J::s(hex(&line[..line.len().min(600)]))),
        ("line_len", J::u(line.len() as u64)),
        ("decode", J::Bool(decode)),
        ("expectation", J::s(format!("{:?}", exp))),
        ("observed", J::s(out.show())),
        ("what", J::s(why)),
        ("build", J::s(subj::BUILD)),
    ])
}

thread_local! {
    static FINDINGS: std::cell::RefCell<Findings> = const { std::cell::RefCell::new(Vec::new()) };
    static TRACE_CACHE: std::cell::RefCell<std::collections::HashMap<(String, String), Option<String>>> =
        std::cell::RefCell::new(std::collections::HashMap::new());
}

/// Feed one line to a fresh parser and judge it for `prop`.
pub fn judge_line(l: &mut Local, line: &[u8], decode: bool, prop: &'static str) {
    let mut p = Parser::new();
    let d0 = p.state();
    let (exp_alloc, _) = asm::step(&MState::Closed, line, decode, false);
    let (exp_noalloc, _) = asm::step(&MState::Closed, line, decode, true);
    let capacity_zone = exp_alloc != exp_noalloc;
    let exp = if subj::NOALLOC { exp_noalloc } else { exp_alloc };
    let out = p.parse(line, decode);
    let d1 = p.state();
    l.class(out.class());
    // C18: where the no-allocator expectation differs from the allocator one (a documented capacity
    // is exceeded) every build records the same token
    l.outcome(if capacity_zone { crate::par::CAP_TOKEN } else { out.digest() });
    if out.is_ok() {
        l.nontrivial();
    }
    if matches!(exp, Expect::Unjudged(_) | Expect::EmbeddedStar { .. }) {
        l.unjudged();
    }
    FINDINGS.with(|f| {
        let mut f = f.borrow_mut();
        f.clear();
        judge_step(&exp, line, decode, &out, &d0, &d1, &mut f);
        // representation-only differences are not traces: compare behaviour (cached per state pair —
        // the parser is fresh, so the pair identifies the two states)
        crate::explore::confirm_traces(&mut f, || {
            TRACE_CACHE.with(|c| {
                let key = (d0.clone(), d1.clone());
                if let Some(v) = c.borrow().get(&key) {
                    return v.clone();
                }
                let v = crate::explore::states_differ(&[], &[(line.to_vec(), decode)], &crate::explore::probe_set(&MState::Closed));
                c.borrow_mut().insert(key, v.clone());
                v
            })
        });
        for (props, sig, why) in f.drain(..) {
            if props.contains(&prop) {
                let sig = sig.replace("asm.", "line.");
                l.violation(&sig, || describe(line, decode, &exp, &out, &why));
            }
        }
    });
    if prop == "C07" {
        if let Some(s) = out.sent() {
            // requesting decoding changes nothing but the decoded message
            let mut q = Parser::new();
            let other = q.parse(line, !decode);
            let (with, without) = if decode { (&out, &other) } else { (&other, &out) };
            match (with, without) {
                (_, Out::Err(_)) | (_, Out::Panic(_)) => {
                    l.violation("line.decode-off-rejects", || {
                        describe(line, decode, &exp, &other, "with decoding off a payload-level error (or any error the decode=on run does not have) was raised")
                    });
                }
                (Out::Complete(a), Out::Complete(b)) | (Out::Incomplete(a), Out::Incomplete(b)) => {
                    let mut a2 = a.clone();
                    a2.msg = None;
                    if a2 != *b || b.msg.is_some() {
                        l.violation("line.decode-changes-sentence", || {
                            describe(line, decode, &exp, &other, "the sentence fields differ between decode=on and decode=off")
                        });
                    }
                    if matches!(with, Out::Complete(_)) && a.msg.is_none() {
                        l.violation("line.decode-on-no-message", || {
                            describe(line, decode, &exp, &other, "decoding requested, Complete returned, but no message")
                        });
                    }
                }
                (Out::Err(_), _) => {} // payload-level error with decoding on
                _ => {
                    l.violation("line.decode-changes-outcome", || {
                        describe(line, decode, &exp, &other, "decode=on and decode=off disagree on Complete/Incomplete")
                    });
                }
            }
            let _ = s;
        }
    }
    if prop == "C19" {
        judge_c19(l, line, decode, &exp, &out, false);
    }
    l.sample(|| describe(line, decode, &exp, &out, "sample"));
}

/// C19 for one accepted-or-not result. `group_complete`: the result completes a multi-fragment group
/// (then "that sentence's payload" may be read as the last fragment's own or as the concatenation).
pub fn judge_c19(l: &mut Local, line: &[u8], decode: bool, exp: &Expect, out: &Out, group_complete: bool) {
    let r = match recognise(line) {
        Some(r) if !r.embedded_star => r,
        _ => return,
    };
    let own_first = r.payload[0];
    // a well-formed sentence must not be rejected because of what its first payload character is
    if !decode && matches!(exp, Expect::Unfrag { .. } | Expect::Incomplete | Expect::Deliver { .. }) && matches!(out, Out::Err(_)) {
        l.violation("line.rejected-by-type-character", || {
            describe(line, decode, exp, out, &format!("a well-formed sentence whose payload starts with {:?} was rejected", own_first as char))
        });
        return;
    }
    let s = match out.sent() {
        Some(s) => s,
        None => return,
    };
    let mut firsts = vec![own_first];
    if group_complete {
        if let Some(&c) = s.data.first() {
            firsts.push(c);
        }
    }
    let wants: Vec<u8> = firsts.iter().filter_map(|&c| sixbit(c)).collect();
    if wants.len() != firsts.len() {
        l.unjudged(); // first character outside the armoring alphabet: no 6-bit value
        return;
    }
    if !wants.contains(&s.mtype) {
        // known defect (D10): the crate reports the top six bits of the armored character
        let sig = if firsts.iter().any(|&c| s.mtype == c >> 2) {
            "sentence-type-from-armored-char"
        } else {
            "line.sentence-type"
        };
        l.violation(sig, || {
            describe(line, decode, exp, out, &format!("sentence.message_type = {} but the first payload character {:?} encodes {:?}", s.mtype, own_first as char, wants))
        });
    }
    if r.k == 1 {
        if let Some(m) = &s.msg {
            let mt = m.iter().find(|(id, _)| id.0 == "message_type").map(|(_, v)| v.clone());
            if mt != Some(crate::canon::Val::U(wants[0] as u64)) {
                l.violation("line.decoded-type-differs", || {
                    describe(line, decode, exp, out, "decoded message type differs from the first payload character's value")
                });
            }
        }
    }
}

// ---------------------------------------------------------------------------------------------
// seeds

pub const REPO_LINES: [&[u8]; 11] = [
    b"!AIVDM,1,1,,,34RvgN500005tLTMfjiTs3u`0>`<,0*7A",
    b"!AIVDM,1,1,,A,403OtVAv6s5l1o?I``E`4I?02<34,0*21",
    b"!AIVDM,1,1,,A,E>kb9I99S@0`8@:9ah;0TahI7@@;V4=v:nv;h00003vP100,0*7A",
    b"!AIVDM,1,1,,A,E>kb9I99S@0`8@:9ah;0TahI7@@;V4=v:nv;h00003vP100,0*8D",
    b"!AIVDM,1,1,,A,ENkb9H2`:@17W4b0h@@@@@@@@@@;WSEi:lK9800003vP000,0*08",
    b"!AIVDM,1,1,,B,403OtVAv6s5lOo?I`pE`4KO02<34,0*3E",
    b"!AIVDM,1,1,,B,E>kb9O9aS@7PUh10dh19@;0Tah2cWrfP:l?M`00003vP100,0*01",
    b"!AIVDM,1,1,,B,ENkb9U79PW@80Q67h10dh1T6@Hq;`0W8:peOH00003vP000,0*1C",
    b"!AIVDM,2,1,1,B,53`soB8000010KSOW<0P4eDp4l6000000000000U0p<24t@P05H3S833CDP00000,0*78",
    b"!AIVDM,2,2,1,B,0000000,2*26",
    b"\\s:2573345,c:1696241893*00\\!AIVDM,1,1,,A,E>kb9I99S@0`8@:9ah;0TahI7@@;V4=v:nv;h00003vP100,0*7A",
];

/// ≈ 45 valid (and a few deliberately invalid) sentences covering every syntactic feature.
pub fn seeds() -> Vec<Vec<u8>> {
    let mut v: Vec<Vec<u8>> = REPO_LINES.iter().map(|l| l.to_vec()).collect();
    let t1: Vec<u8> = {
        let mut p = vec![b'0'; 28];
        p[0] = b'1';
        p[5] = b'w';
        p
    };
    let mk = |f: &dyn Fn(&mut Mk)| {
        let mut m = Mk::new(1, 1, b"", &t1, 0);
        f(&mut m);
        m.render()
    };
    v.push(mk(&|_| {}));
    v.push(mk(&|m| m.delim = b'$'));
    v.push(mk(&|m| m.tag = Some(b"c:1,s:x".to_vec())));
    v.push(mk(&|m| m.tag = Some(vec![])));
    for t in [&b"AB"[..], b"AD", b"AN", b"AR", b"AS", b"AT", b"AX", b"BS", b"SA", b"ZZ"] {
        v.push(mk(&|m| {
            m.addr = [t, b"VDM"].concat();
        }));
    }
    v.push(mk(&|m| m.addr = b"AIVDO".to_vec()));
    v.push(mk(&|m| m.addr = b"AIXYZ".to_vec()));
    v.push(mk(&|m| m.id = b"7".to_vec()));
    v.push(mk(&|m| m.id = b"007".to_vec()));
    v.push(mk(&|m| m.id = b"255".to_vec()));
    v.push(mk(&|m| m.chan = vec![]));
    v.push(mk(&|m| m.chan = b"AB".to_vec()));
    v.push(mk(&|m| m.chan = vec![0x80, 0x41]));
    v.push(mk(&|m| m.chan = b"1".to_vec()));
    for fill in 1..=5u8 {
        v.push(mk(&|m| m.fill = vec![b'0' + fill]));
    }
    v.push(mk(&|m| m.fill = b"05".to_vec()));
    v.push(mk(&|m| {
        m.n = b"01".to_vec();
        m.k = b"001".to_vec();
    }));
    v.push(mk(&|m| {
        m.n = b"2".to_vec();
    }));
    v.push(mk(&|m| {
        m.n = b"255".to_vec();
        m.k = b"1".to_vec();
        m.id = b"9".to_vec();
    }));
    // checksum spellings and tails
    let m0 = Mk::new(1, 1, b"", &t1, 0);
    let x = m0.xor();
    v.push(m0.render_with(format!("*{:02x}", x).as_bytes()));
    v.push(m0.render_with(format!("*{:08X}", x).as_bytes()));
    v.push(m0.render_with(format!("*{:02X}\r\n", x).as_bytes()));
    v.push(m0.render_with(format!("*{:02X}\r", x).as_bytes()));
    v.push(m0.render_with(format!("*{:02X} trailing", x).as_bytes()));
    // 1-character payload, and payloads around the no-allocator capacity
    v.push(sentence(1, 1, b"", b"1", 0));
    v.push(sentence(1, 1, b"", &vec![b'1'; 384], 0));
    v.push(sentence(1, 1, b"", &vec![b'1'; 385], 0));
    v.push(sentence(1, 1, b"", &vec![b'1'; 383], 0));
    v
}

/// seeds short enough for per-position × 256 mutation sweeps
pub fn mut_seeds() -> Vec<Vec<u8>> {
    seeds().into_iter().filter(|s| s.len() <= 100).collect()
}

// ---------------------------------------------------------------------------------------------
// spaces

pub const SIGMA0: [u8; 12] = [b'!', b'$', b'\\', b',', b'*', b'0', b'1', b'5', b'A', b'w', b'\r', 0x80];

/// LINE-SHORT(L): every byte string of length <= L over Σ₀, decode on and off.
pub fn line_short(prop: &'static str, maxlen: u32) -> Space {
    let a = SIGMA0.len() as u64;
    let mut starts = Vec::new();
    let mut total = 0u64;
    for len in 0..=maxlen {
        starts.push(total);
        total += a.pow(len);
    }
    Space::new(
        &format!("LINE-SHORT({})", maxlen),
        &format!("every byte string of length 0..={} over the 12 structural symbols {{! $ \\ , * 0 1 5 A w CR 0x80}} x decode", maxlen),
        total * 2,
        move |i, l| {
            let decode = i % 2 == 1;
            let k = i / 2;
            let li = match starts.binary_search(&k) {
                Ok(x) => x,
                Err(x) => x - 1,
            };
            let mut r = Radix(k - starts[li]);
            let mut s = [0u8; 12];
            for c in s.iter_mut().take(li) {
                *c = SIGMA0[r.take(a) as usize];
            }
            judge_line(l, &s[..li], decode, prop);
        },
    )
}

/// LINE-SEEDS
pub fn line_seeds(prop: &'static str) -> Space {
    let sd = seeds();
    Space::new("LINE-SEEDS", "every seed sentence x decode", sd.len() as u64 * 2, move |i, l| {
        judge_line(l, &sd[(i / 2) as usize], i % 2 == 1, prop);
    })
}

/// LINE-MUT1: seeds × every position × { delete, replace by each of 256 bytes, insert each of 256
/// bytes } (insertion also at the end).
pub fn line_mut1(prop: &'static str) -> Space {
    let sd = mut_seeds();
    let mut starts = Vec::new();
    let mut total = 0u64;
    for s in &sd {
        starts.push(total);
        total += (s.len() as u64 + 1) * 513;
    }
    Space::new(
        "LINE-MUT1",
        &format!("{} seeds x every position x {{delete, replace by each of 256 bytes, insert each of 256 bytes}}, decode on", sd.len()),
        total,
        move |i, l| {
            let si = match starts.binary_search(&i) {
                Ok(x) => x,
                Err(x) => x - 1,
            };
            let s = &sd[si];
            let mut r = Radix(i - starts[si]);
            let op = r.take(513);
            let pos = r.0 as usize;
            let mut m = s.clone();
            if op == 0 {
                if pos >= s.len() {
                    l.skip();
                    return;
                }
                m.remove(pos);
            } else if op <= 256 {
                let b = (op - 1) as u8;
                if pos >= s.len() || s[pos] == b {
                    l.skip();
                    return;
                }
                m[pos] = b;
            } else {
                m.insert(pos, (op - 257) as u8);
            }
            judge_line(l, &m, true, prop);
        },
    )
}

fn field_spans(line: &[u8]) -> Vec<(usize, usize)> {
    // spans of the comma separated fields between the delimiter and '*', including the address
    let start = line.iter().position(|&c| c == b'!' || c == b'$').map(|p| p + 1).unwrap_or(0);
    let end = line.iter().rposition(|&c| c == b'*').unwrap_or(line.len());
    let mut spans = Vec::new();
    let mut a = start;
    for (i, &c) in line[..end].iter().enumerate().skip(start) {
        if c == b',' {
            spans.push((a, i));
            a = i + 1;
        }
    }
    spans.push((a, end));
    spans
}

/// LINE-FIELD-EDIT: seeds × every field × { empty it, duplicate it, drop it with its comma, swap with
/// the next field }, checksum recomputed (so that the SHAPE is what is judged) and not recomputed.
pub fn line_field_edit(prop: &'static str) -> Space {
    let sd = mut_seeds();
    Space::new(
        "LINE-FIELD-EDIT",
        &format!("{} seeds x 8 field slots x {{empty, duplicate, drop, swap with next}} x checksum {{recomputed, stale}} x decode", sd.len()),
        sd.len() as u64 * 8 * 4 * 2 * 2,
        move |i, l| {
            let mut r = Radix(i);
            let decode = r.take(2) == 1;
            let fix = r.take(2) == 1;
            let op = r.take(4);
            let slot = r.take(8) as usize;
            let s = &sd[r.0 as usize];
            let spans = field_spans(s);
            if slot >= spans.len() {
                l.skip();
                return;
            }
            let (a, b) = spans[slot];
            let mut m: Vec<u8> = Vec::new();
            match op {
                0 => {
                    m.extend_from_slice(&s[..a]);
                    m.extend_from_slice(&s[b..]);
                }
                1 => {
                    m.extend_from_slice(&s[..b]);
                    m.push(b',');
                    m.extend_from_slice(&s[a..]);
                }
                2 => {
                    if slot + 1 < spans.len() {
                        m.extend_from_slice(&s[..a]);
                        m.extend_from_slice(&s[b + 1..]);
                    } else if a > 0 {
                        m.extend_from_slice(&s[..a - 1]);
                        m.extend_from_slice(&s[b..]);
                    }
                }
                _ => {
                    if slot + 1 >= spans.len() {
                        l.skip();
                        return;
                    }
                    let (c, d) = spans[slot + 1];
                    m.extend_from_slice(&s[..a]);
                    m.extend_from_slice(&s[c..d]);
                    m.push(b',');
                    m.extend_from_slice(&s[a..b]);
                    m.extend_from_slice(&s[d..]);
                }
            }
            if m == *s {
                l.skip();
                return;
            }
            if fix {
                // recompute the checksum over the new body
                if let (Some(st), Some(en)) = (
                    m.iter().position(|&c| c == b'!' || c == b'$'),
                    m.iter().rposition(|&c| c == b'*'),
                ) {
                    if st < en {
                        let x = m[st + 1..en].iter().fold(0u8, |acc, &c| acc ^ c);
                        m.truncate(en);
                        m.extend_from_slice(format!("*{:02X}", x).as_bytes());
                    }
                }
            }
            judge_line(l, &m, decode, prop);
        },
    )
}

/// LINE-FIELD-SHORT: each of the 7 comma-separated fields (and the checksum digits) of a valid
/// template replaced by EVERY string of length <= L over Σ₀, checksum recomputed (except when the
/// checksum field itself is the target) — arbitrary short contents in every field position.
pub fn line_field_short(prop: &'static str, maxlen: u32) -> Space {
    let a = SIGMA0.len() as u64;
    let maxlen = maxlen + 1;
    let mut starts = Vec::new();
    let mut per = 0u64;
    for len in 0..=maxlen {
        starts.push(per);
        per += a.pow(len);
    }
    Space::new(
        &format!("LINE-FIELD-SHORT({})", maxlen),
        &format!("9 slots (address, count, number, id, channel, payload, fill, checksum digits, PREFIX before the start delimiter) x every string of length 0..={} over the 12 structural symbols x 2 templates x decode", maxlen + 1),
        per * 9 * 2 * 2,
        move |i, l| {
            let mut r = Radix(i);
            let decode = r.take(2) == 1;
            let tmpl = r.take(2);
            let slot = r.take(9);
            let k = r.0;
            let li = match starts.binary_search(&k) {
                Ok(x) => x,
                Err(x) => x - 1,
            };
            let mut rr = Radix(k - starts[li]);
            let content: Vec<u8> = (0..li).map(|_| SIGMA0[rr.take(a) as usize]).collect();
            let mut payload = vec![b'0'; 28];
            payload[0] = b'1';
            let mut m = if tmpl == 0 { Mk::new(1, 1, b"", &payload, 0) } else { Mk::new(2, 1, b"7", &payload[..13], 0) };
            let line = match slot {
                0 => {
                    m.addr = content;
                    m.render()
                }
                1 => {
                    m.n = content;
                    m.render()
                }
                2 => {
                    m.k = content;
                    m.render()
                }
                3 => {
                    m.id = content;
                    m.render()
                }
                4 => {
                    m.chan = content;
                    m.render()
                }
                5 => {
                    m.payload = content;
                    m.render()
                }
                6 => {
                    m.fill = content;
                    m.render()
                }
                7 => {
                    let mut t = vec![b'*'];
                    t.extend_from_slice(&content);
                    m.render_with(&t)
                }
                _ => {
                    // anything before the start delimiter: leading garbage, one or several tag blocks
                    let mut t = content;
                    t.extend_from_slice(&m.render());
                    t
                }
            };
            judge_line(l, &line, decode, prop);
        },
    )
}

/// LINE-NUMERIC: complete sweeps of the numeric fields outside the small menus: every count 0..=255
/// (as first fragment and as final fragment), every number 0..=255 of a 255-fragment group, every
/// sequence id 0..=255 (and 256..=300), each in 4 spellings (plain, 1, 3 and 9 leading zeros).
pub fn line_numeric(prop: &'static str) -> Space {
    Space::new(
        "LINE-NUMERIC",
        "counts 0..=300 x {number 1, number = count} ; numbers 0..=300 of a 255-group ; sequence ids 0..=300 on an unfragmented and on a first-fragment sentence ; each in 4 spellings (0, 1, 3, 9 leading zeros) x decode",
        301 * 5 * 4 * 2,
        move |i, l| {
            let mut r = Radix(i);
            let decode = r.take(2) == 1;
            let zeros = [0usize, 1, 3, 9][r.take(4) as usize];
            let which = r.take(5);
            let v = r.0;
            let num = format!("{}{}", "0".repeat(zeros), v).into_bytes();
            let mut payload = vec![b'0'; 28];
            payload[0] = b'1';
            let mut m = Mk::new(1, 1, b"", &payload, 0);
            match which {
                0 => {
                    m.n = num;
                    m.k = b"1".to_vec();
                }
                1 => {
                    m.n = num.clone();
                    m.k = num;
                }
                2 => {
                    m.n = b"255".to_vec();
                    m.k = num;
                }
                3 => m.id = num,
                _ => {
                    m.n = b"2".to_vec();
                    m.id = num;
                }
            }
            judge_line(l, &m.render(), decode, prop);
        },
    )
}

/// LINE-LENGTHS: every payload length 1..=520, every channel-field length 0..=300, every tag-block
/// length 0..=300 and every trailing-garbage length 0..=300 (total line lengths across 255/256 and the
/// 384-byte capacity), on an unfragmented and on a first-fragment sentence.
pub fn line_lengths(prop: &'static str) -> Space {
    Space::new(
        "LINE-LENGTHS",
        "payload length 1..=520 ; channel field length 0..=300 ; tag block length 0..=300 ; trailing bytes 0..=300 ; x {unfragmented, first fragment} x decode",
        (520 + 301 * 3) * 2 * 2,
        move |i, l| {
            let mut r = Radix(i);
            let decode = r.take(2) == 1;
            let first = r.take(2) == 1;
            let k = r.0 as usize;
            let mut payload = vec![b'0'; 28];
            payload[0] = b'1';
            let mut m = if first { Mk::new(2, 1, b"4", &payload, 0) } else { Mk::new(1, 1, b"", &payload, 0) };
            let mut tail_extra = 0usize;
            if k < 520 {
                let mut p = vec![b'0'; k + 1];
                p[0] = b'>'; // type 14 (safety text): decodes at every length >= 8 characters
                m.payload = p;
            } else if k < 520 + 301 {
                m.chan = vec![b'B'; k - 520];
            } else if k < 520 + 602 {
                m.tag = Some(vec![b't'; k - 520 - 301]);
            } else {
                tail_extra = k - 520 - 602;
            }
            let mut line = m.render();
            line.extend(std::iter::repeat(b'~').take(tail_extra));
            judge_line(l, &line, decode, prop);
        },
    )
}

/// LINE-NUMERIC-SHORT: the four numeric fields (count, number, sequence id, fill) replaced by EVERY
/// string of length <= 3 over {0 1 2 5 9 + - space . a x}, checksum recomputed: what exactly counts
/// as a decimal number.
pub fn line_numeric_short(prop: &'static str) -> Space {
    const A: [u8; 11] = [b'0', b'1', b'2', b'5', b'9', b'+', b'-', b' ', b'.', b'a', b'x'];
    let per = 1 + 11 + 121 + 1331u64;
    Space::new(
        "LINE-NUMERIC-SHORT",
        "count / number / sequence id / fill field x every string of length 0..=3 over {0 1 2 5 9 + - space . a x} x 2 templates, checksum recomputed",
        per * 4 * 2,
        move |i, l| {
            let mut r = Radix(i);
            let tmpl = r.take(2);
            let slot = r.take(4);
            let mut k = r.0;
            let mut len = 0usize;
            let mut cnt = 1u64;
            while k >= cnt {
                k -= cnt;
                cnt *= 11;
                len += 1;
            }
            let content: Vec<u8> = (0..len)
                .map(|_| {
                    let d = (k % 11) as usize;
                    k /= 11;
                    A[d]
                })
                .collect();
            let mut payload = vec![b'0'; 28];
            payload[0] = b'1';
            let mut m = if tmpl == 0 { Mk::new(1, 1, b"", &payload, 0) } else { Mk::new(2, 1, b"7", &payload[..13], 0) };
            match slot {
                0 => m.n = content,
                1 => m.k = content,
                2 => m.id = content,
                _ => m.fill = content,
            }
            judge_line(l, &m.render(), false, prop);
        },
    )
}

pub const STRUCT16: [u8; 16] = [b'!', b'$', b'\\', b',', b'*', b'0', b'1', b'6', b'9', b'A', b'G', b'w', b'x', b'\r', 0x00, 0xff];

/// LINE-MUT2: every pair of positions × 16² structural bytes on a few seeds.
pub fn line_mut2(prop: &'static str, nseeds: usize) -> Space {
    let all = mut_seeds();
    // pick structurally different seeds: first repo line, fragment, tag block, '$', multi-digit id ...
    let pick: Vec<usize> = [0usize, 8, 9, 10, 11, 12, 13, 26, 27, 40].into_iter().filter(|&x| x < all.len()).take(nseeds).collect();
    let sd: Vec<Vec<u8>> = pick.iter().map(|&x| all[x].clone()).collect();
    let mut starts = Vec::new();
    let mut total = 0u64;
    for s in &sd {
        starts.push(total);
        let n = s.len() as u64;
        total += n * (n - 1) / 2 * 256;
    }
    Space::new(
        "LINE-MUT2",
        &format!("{} seeds x every pair of positions x 16^2 structural byte values", sd.len()),
        total,
        move |i, l| {
            let si = match starts.binary_search(&i) {
                Ok(x) => x,
                Err(x) => x - 1,
            };
            let s = &sd[si];
            let mut r = Radix(i - starts[si]);
            let b0 = STRUCT16[r.take(16) as usize];
            let b1 = STRUCT16[r.take(16) as usize];
            let n = s.len() as u64;
            let mut kk = r.0;
            let mut a = 0u64;
            loop {
                let row = n - 1 - a;
                if kk < row {
                    break;
                }
                kk -= row;
                a += 1;
            }
            let b = a + 1 + kk;
            if s[a as usize] == b0 || s[b as usize] == b1 {
                l.skip();
                return;
            }
            let mut m = s.clone();
            m[a as usize] = b0;
            m[b as usize] = b1;
            judge_line(l, &m, false, prop);
        },
    )
}

/// LINE-CKSUM: seeds × all 256 low-byte values × 8 spellings of the checksum field: 2-digit upper,
/// lower, 8-digit zero-padded, 1-digit, 3 digits with a non-zero leading digit (value > 0xFF), 8
/// digits with non-zero high digits, 10 digits (only the first 8 are read), 9 digits whose first 8
/// are the padded value.
pub fn line_cksum(prop: &'static str) -> Space {
    let sd: Vec<Vec<u8>> = mut_seeds().into_iter().filter(|s| recognise(s).is_some()).collect();
    Space::new(
        "LINE-CKSUM",
        &format!("{} seeds x all 256 transmitted checksum values x 8 spellings (incl. values > 0xFF and > 8 digits) x decode", sd.len()),
        sd.len() as u64 * 256 * 8 * 2,
        move |i, l| {
            let mut r = Radix(i);
            let decode = r.take(2) == 1;
            let fmt = r.take(8);
            let v = r.take(256) as u8;
            let s = &sd[r.0 as usize];
            let star = s.iter().rposition(|&c| c == b'*').unwrap();
            let mut m = s[..star].to_vec();
            let tail = match fmt {
                0 => format!("*{:02X}", v),
                1 => format!("*{:02x}", v),
                2 => format!("*{:08X}", v),
                3 => {
                    if v >= 16 {
                        l.skip();
                        return;
                    }
                    format!("*{:X}", v)
                }
                4 => format!("*1{:02X}", v),
                5 => format!("*F00A00{:02X}", v),
                6 => format!("*00000000{:02X}", v),
                _ => format!("*000000{:02X}7", v),
            };
            m.extend_from_slice(tail.as_bytes());
            judge_line(l, &m, decode, prop);
        },
    )
}

/// LINE-GRAMMAR: complete product of per-field menus.
pub fn line_grammar(prop: &'static str, wide: bool) -> Space {
    let starts_: Vec<&[u8]> = vec![b"!", b"$", b"\\t\\!", b"\\\\!", b"\\t!", b"x!", b"", b"\\a\\\\b\\!", b"\\t\\$"];
    let nums: Vec<&[u8]> = if wide {
        vec![b"0", b"1", b"2", b"3", b"9", b"09", b"10", b"99", b"255", b"0255", b"256", b"999", b"", b"1a", b"-1", b"+1", b" 1"]
    } else {
        vec![b"0", b"1", b"2", b"9", b"09", b"255", b"0255", b"256", b"", b"1a"]
    };
    let ids: Vec<&[u8]> = if wide {
        vec![b"", b"0", b"5", b"9", b"07", b"10", b"255", b"256", b"A", b"1 ", b"00000000001"]
    } else {
        vec![b"", b"0", b"5", b"9", b"07", b"10", b"255", b"256"]
    };
    let chans: Vec<&[u8]> = if wide {
        vec![b"", b"A", b"B", b"AB", b"\x80", b"1", b"*", b" "]
    } else {
        vec![b"", b"A", b"B", b"AB", b"\x80"]
    };
    let payloads: Vec<&[u8]> = vec![
        b"13u?etPv2;0n:dDPwUM1U1Cb069D",
        b"403OtVAv6s5l1o?I``E`4I?02<34",
        b"0000000",
        b"1",
        b"",
    ];
    let fills: Vec<&[u8]> = vec![b"0", b"1", b"2", b"3", b"4", b"5", b"05", b"6", b""];
    // tails: H = correct checksum (upper), h = lower
    let tails: Vec<&str> = vec!["*H", "*h", "*0H", "*000000H", "*0000000H", "*1H", "", "*H\r\n", "*HG", "*", "*G", " *H"];
    let dims = [
        starts_.len() as u64,
        nums.len() as u64,
        nums.len() as u64,
        ids.len() as u64,
        chans.len() as u64,
        payloads.len() as u64,
        fills.len() as u64,
        tails.len() as u64,
    ];
    let total: u64 = dims.iter().product();
    Space::new(
        if wide { "LINE-GRAMMAR(wide)" } else { "LINE-GRAMMAR" },
        &format!(
            "complete product: {} starts x {} counts x {} numbers x {} ids x {} channels x {} payloads x {} fills x {} tails, decode off",
            dims[0], dims[1], dims[2], dims[3], dims[4], dims[5], dims[6], dims[7]
        ),
        total,
        move |i, l| {
            let mut r = Radix(i);
            let tail = tails[r.take(dims[7]) as usize];
            let fill = fills[r.take(dims[6]) as usize];
            let payload = payloads[r.take(dims[5]) as usize];
            let chan = chans[r.take(dims[4]) as usize];
            let id = ids[r.take(dims[3]) as usize];
            let k = nums[r.take(dims[2]) as usize];
            let n = nums[r.take(dims[1]) as usize];
            let st = starts_[r.take(dims[0]) as usize];
            let mut body: Vec<u8> = b"AIVDM".to_vec();
            for f in [n, k, id, chan, payload, fill] {
                body.push(b',');
                body.extend_from_slice(f);
            }
            let x = body.iter().fold(0u8, |a, &b| a ^ b);
            let mut line = st.to_vec();
            line.extend_from_slice(&body);
            let t = tail
                .replace('H', &format!("{:02X}", x))
                .replace('h', &format!("{:02x}", x));
            line.extend_from_slice(t.as_bytes());
            judge_line(l, &line, false, prop);
        },
    )
}

/// LINE-ADDR: all 65 536 talker byte pairs; all report-type triples over `alpha`.
pub fn line_addr(prop: &'static str, full_triples: bool) -> Space {
    let alpha: Vec<u8> = if full_triples {
        (0..=255u8).collect()
    } else {
        let mut a: Vec<u8> = b"VDMOvdmo,*!$\\0159AIZ \r\n".to_vec();
        a.extend_from_slice(&[0x00, 0x7f, 0x80, 0xff]);
        a
    };
    let na = alpha.len() as u64;
    let t1 = {
        let mut p = vec![b'0'; 28];
        p[0] = b'1';
        p
    };
    Space::new(
        if full_triples { "LINE-ADDR(full)" } else { "LINE-ADDR" },
        &format!("all 65536 talker byte pairs (type VDM) + all {}^3 report-type triples (talker AI); checksum correct", na),
        65536 + na * na * na,
        move |i, l| {
            let mut m = Mk::new(1, 1, b"", &t1, 0);
            if i < 65536 {
                m.addr = vec![(i >> 8) as u8, (i & 0xff) as u8, b'V', b'D', b'M'];
            } else {
                let mut r = Radix(i - 65536);
                m.addr = vec![b'A', b'I', alpha[r.take(na) as usize], alpha[r.take(na) as usize], alpha[r.take(na) as usize]];
            }
            judge_line(l, &m.render(), false, prop);
        },
    )
}

/// LINE-CHAN: all 65 536 two-byte channel fields (and all 256 one-byte ones).
pub fn line_chan(prop: &'static str) -> Space {
    Space::new(
        "LINE-CHAN",
        "all 256 one-byte and all 65536 two-byte channel fields on an unfragmented sentence (checksum correct)",
        256 + 65536,
        move |i, l| {
            let mut payload = vec![b'0'; 28];
            payload[0] = b'1';
            let mut m = Mk::new(1, 1, b"", &payload, 0);
            m.chan = if i < 256 { vec![i as u8] } else { vec![((i - 256) >> 8) as u8, ((i - 256) & 0xff) as u8] };
            judge_line(l, &m.render(), false, prop);
        },
    )
}

/// LINE-TYPECHAR: all 256 first payload bytes × {unfragmented, first fragment, last fragment of a
/// fresh parser (rejected), tag block} × decode.
pub fn line_typechar(prop: &'static str) -> Space {
    Space::new(
        "LINE-TYPECHAR",
        "all 256 first payload bytes x 4 sentence shapes x 3 payload lengths x decode",
        256 * 4 * 3 * 2,
        move |i, l| {
            let mut r = Radix(i);
            let decode = r.take(2) == 1;
            let plen = [1usize, 28, 71][r.take(3) as usize];
            let shape = r.take(4);
            let c = r.take(256) as u8;
            if c == b',' {
                l.skip();
                return;
            }
            let mut payload = vec![b'0'; plen];
            payload[0] = c;
            let mut m = match shape {
                0 => Mk::new(1, 1, b"", &payload, 0),
                1 => Mk::new(2, 1, b"3", &payload, 0),
                2 => Mk::new(2, 2, b"3", &payload, 0),
                _ => {
                    let mut m = Mk::new(1, 1, b"", &payload, 0);
                    m.tag = Some(b"c:1".to_vec());
                    m.delim = b'$';
                    m
                }
            };
            m.chan = b"B".to_vec();
            judge_line(l, &m.render(), decode, prop);
        },
    )
}

/// every armoring character as first payload character of a decodable message of each type
pub fn line_type_decodable(prop: &'static str) -> Space {
    Space::new(
        "LINE-TYPE-DECODABLE",
        "all 64 armoring characters as first character of a 71-character payload (long enough for every layout) x {unfragmented, first fragment} x decode on",
        64 * 2,
        move |i, l| {
            let c = armor_char((i / 2) as u8);
            let mut payload = vec![b'0'; 71];
            payload[0] = c;
            let line = if i % 2 == 0 {
                sentence(1, 1, b"", &payload, 0)
            } else {
                sentence(2, 1, b"1", &payload, 0)
            };
            judge_line(l, &line, true, prop);
        },
    )
}

/// TYPECHAR-GROUP: all 256 first payload bytes on the continuation and final fragments of a group:
/// history F(3,1) F(3,2) F(3,3) (and F(2,1) F(2,2)) with the byte as first payload character of
/// fragment 2 and 3, on one parser; the sentence-level type of each result is judged.
pub fn line_typechar_group(prop: &'static str) -> Space {
    Space::new(
        "TYPECHAR-GROUP",
        "all 256 first payload bytes x {3-fragment group, 2-fragment group} x 2 sequence ids x decode: type reported on the continuation (Incomplete) and on the completing (Complete) sentence",
        256 * 2 * 2 * 2,
        move |i, l| {
            let mut r = Radix(i);
            let decode = r.take(2) == 1;
            let id: &[u8] = if r.take(2) == 0 { b"" } else { b"4" };
            let n = if r.take(2) == 0 { 3u32 } else { 2 };
            let c = r.take(256) as u8;
            if c == b',' || c == b'*' {
                l.skip();
                return;
            }
            let mut p = Parser::new();
            let mut m = MState::Closed;
            for k in 1..=n {
                if k == 2 && prop == "C19" {
                    // an unfragmented sentence arriving while the group is open reports ITS OWN type
                    let mut up = vec![b'0'; 28];
                    up[0] = c;
                    let uline = sentence(1, 1, b"", &up, 0);
                    let (uexp, um) = asm::step(&m, &uline, false, subj::NOALLOC);
                    let uout = p.parse(&uline, false);
                    m = um;
                    l.outcome(uout.digest());
                    judge_c19(l, &uline, false, &uexp, &uout, false);
                }
                let payload: Vec<u8> = if k == 1 { b"1000".to_vec() } else { vec![c, b'0', b'0'] };
                let line = sentence(n, k, id, &payload, 0);
                let (exp, m1) = asm::step(&m, &line, decode, subj::NOALLOC);
                let out = p.parse(&line, decode);
                m = m1;
                l.outcome(out.digest());
                if k == n {
                    l.class(out.class());
                    if out.is_ok() {
                        l.nontrivial();
                    }
                }
                if let Out::Panic(_) = out {
                    l.violation("line.panic", || describe(&line, decode, &exp, &out, "panic"));
                    return;
                }
                // with decoding on, the completing sentence may legitimately fail to decode
                if prop == "C19" && (!(decode && k == n) || out.is_ok()) {
                    judge_c19(l, &line, false, &exp, &out, k == n);
                }
                if !out.is_ok() {
                    break;
                }
            }
        },
    )
}

pub fn c02(tier: Tier) -> Vec<Space> {
    let mut v = vec![
        line_cksum("C02"),
        line_mut1("C02"),
        line_field_edit("C02"),
        line_seeds("C02"),
        line_field_short("C02", if tier == Tier::Quick { 3 } else { 4 }),
        line_lengths("C02"),
        line_grammar("C02", false),
    ];
    if tier == Tier::Thorough {
        v.push(line_mut2("C02", 10));
    }
    v
}

pub fn c07(tier: Tier) -> Vec<Space> {
    vec![
        line_seeds("C07"),
        line_grammar("C07", tier == Tier::Thorough),
        line_field_short("C07", if tier == Tier::Quick { 3 } else { 4 }),
        line_numeric("C07"),
        line_numeric_short("C07"),
        line_lengths("C07"),
        line_chan("C07"),
        line_addr("C07", tier == Tier::Thorough),
        line_mut1("C07"),
        line_typechar("C07"),
    ]
}

pub fn c08(tier: Tier) -> Vec<Space> {
    let mut v = vec![
        line_seeds("C08"),
        line_mut1("C08"),
        line_field_edit("C08"),
        line_grammar("C08", tier == Tier::Thorough),
        line_short("C08", if tier == Tier::Quick { 5 } else { 7 }),
        line_field_short("C08", if tier == Tier::Quick { 3 } else { 4 }),
        line_numeric("C08"),
        line_numeric_short("C08"),
        line_lengths("C08"),
        line_cksum("C08"),
    ];
    if tier == Tier::Thorough {
        v.push(line_mut2("C08", 10));
    }
    v
}

pub fn c19(_tier: Tier) -> Vec<Space> {
    vec![line_typechar("C19"), line_type_decodable("C19"), line_typechar_group("C19"), line_seeds("C19")]
}
