//! Properties decided on `messages::parse`: C04, C09–C16.
use super::msgjudge::Cfg;
use super::msgspaces::*;
use crate::par::Space;
use crate::spec::msg::Class;
use crate::Tier;

fn cfg(prop: &'static str, judge_status: bool) -> Cfg {
    Cfg { prop, judge_status }
}

pub fn c04(tier: Tier) -> Vec<Space> {
    let c = cfg("C04", true);
    let mut v = vec![
        ball(c, 2, variants()),
        field_full("MSG-FIELD(int<=14)", c, variants(), sel_int, 1, 14),
        field_pairs(c, variants()),
        field_triples(c, variants()),
        dense(c, variants()),
        calendar(c),
        text_dictionary(c, variants()),
        list_relations(c),
        via_line(c),
    ];
    match tier {
        Tier::Quick => {
            v.push(field_wide("MSG-FIELD-WIDE(int)", c, variants(), sel_int, 15, 1, 1));
        }
        Tier::Thorough => {
            v.push(field_full("MSG-FIELD(int 15..20)", c, variants(), sel_int, 15, 20));
            v.push(field_wide("MSG-FIELD-WIDE(int)", c, variants(), sel_int, 21, 4, 4));
            // complete 2^30 sweeps: the source MMSI in types 1 and 24 (part B), the IMO number in
            // type 5 and the destination MMSI in type 6 (≈ 6 min each on 16 cores)
            for (vn, field) in [("T1", "mmsi"), ("T24.B", "mmsi"), ("T5", "imo_number"), ("T6", "dest_mmsi")] {
                let var = variants().into_iter().find(|x| x.name == vn).unwrap();
                if let Some(s) = fields_of(&var).iter().find(|s| s.id.0 == field) {
                    v.push(field_complete(c, var.clone(), s));
                }
            }
        }
    }
    v
}

pub fn c09(_tier: Tier) -> Vec<Space> {
    let c = cfg("C09", true);
    vec![
        lengths(c),
        ball1_all_lengths(c, 64),
        dense(c, variants()),
        field_triples(c, variants()),
        ascii_payloads(c),
    ]
}

pub fn c10(tier: Tier) -> Vec<Space> {
    let c = cfg("C10", true);
    let mut v = vec![
        field_full("MSG-FIELD(scaled<=18)", c, variants(), sel_scaled, 1, 18),
        field_wide("MSG-FIELD-WIDE(coord)", c, variants(), sel_scaled, 19, 2, 2),
    ];
    v.push(dense(c, variants()));
    v.push(field_triples(c, variants()));
    if tier == Tier::Thorough {
        complete_coords(c, &mut v, &[1, 4, 9, 11, 18, 19, 21]);
    }
    v
}

/// complete 2^28 / 2^27 sweeps of longitude / latitude in one variant of each listed type
fn complete_coords(c: Cfg, v: &mut Vec<Space>, types: &[u8]) {
    let mut seen = Vec::new();
    for var in variants() {
        if seen.contains(&var.t) || !types.contains(&var.t) {
            continue;
        }
        seen.push(var.t);
        for s in fields_of(&var) {
            if s.class == Class::Scaled && s.w >= 19 {
                v.push(field_complete(c, var.clone(), &s));
            }
        }
    }
}

pub fn c11(tier: Tier) -> Vec<Space> {
    let c = cfg("C11", true);
    let mut v = vec![
        field_full("MSG-FIELD(optional<=18)", c, variants(), sel_scaled_opt, 1, 18),
        field_wide("MSG-FIELD-WIDE(coord)", c, variants(), sel_scaled, 19, 2, 2),
        dense(c, variants()),
        field_triples(c, variants()),
        calendar(c),
    ];
    if tier == Tier::Thorough {
        complete_coords(c, &mut v, &[2, 21]);
    }
    v
}

pub fn c12(_tier: Tier) -> Vec<Space> {
    let c = cfg("C12", true);
    vec![
        field_full("MSG-ENUM", c, variants(), sel_enum, 1, 8),
        super::c12conv::ship_type_conversions(),
        dense(c, variants()),
        field_triples(c, variants()),
    ]
}

pub fn c13(tier: Tier) -> Vec<Space> {
    let c = cfg("C13", true);
    let vars = variants();
    let mut v = vec![
        text_deviations(c, vars.clone(), false),
        text_trim(c, vars.clone()),
        text_lengths(c, 132),
        text_adjacent(c, vars.clone()),
        text_dictionary(c, vars.clone()),
        dense(c, vars.clone()),
    ];
    let b = vars.iter().find(|x| x.name == "T24.B").unwrap().clone();
    v.push(text_complete(c, b.clone(), 48, 3, "T24.B.vendor_id"));
    match tier {
        Tier::Quick => {}
        Tier::Thorough => {
            v.push(text_deviations(c, vars.clone(), true));
            v.push(text_complete(c, b, 66, 4, "T24.B.model_serial"));
        }
    }
    v
}

pub fn c14(_tier: Tier) -> Vec<Space> {
    let c = cfg("C14", true);
    vec![
        lengths(c),
        ball1_all_lengths(c, 64),
        text_lengths(c, 132),
        binary(c, 130),
        via_line(c),
        dense(c, variants()),
        field_triples(c, variants()),
        list_relations(c),
        ascii_payloads(c),
    ]
}

pub fn c15(_tier: Tier) -> Vec<Space> {
    let c = cfg("C15", true);
    vec![binary(c, 130), binary_appid(c), binary_marker(c), ascii_payloads(c), dense(c, variants())]
}

pub fn c16(_tier: Tier) -> Vec<Space> {
    let c = cfg("C16", true);
    vec![radio(c), dense(c, variants()), field_triples(c, variants())]
}

/// C01 (totality) over the payload functions: only panics are reported.
pub fn c01_msg(tier: Tier) -> Vec<Space> {
    let c = cfg("C01", false);
    let mut v = vec![
        lengths(c),
        ball1_all_lengths(c, 64),
        via_line(c),
        text_lengths(c, 132),
        binary(c, 130),
        radio(c),
        dense(c, variants()),
        field_pairs(c, variants()),
        field_triples(c, variants()),
        calendar(c),
        text_dictionary(c, variants()),
        list_relations(c),
        binary_marker(c),
        ascii_payloads(c),
    ];
    if tier == Tier::Thorough {
        v.push(ball(c, 2, variants()));
        v.push(field_full("MSG-FIELD(all<=14)", c, variants(), |_| true, 1, 14));
    }
    v
}

/// C18 (build equivalence): digests of canonical outcomes; the capacity rule.
pub fn c18_msg(tier: Tier) -> Vec<Space> {
    let c = cfg("C18", false);
    let mut v = vec![
        lengths(c),
        ball1_all_lengths(c, 64),
        via_line(c),
        text_lengths(c, 132),
        binary(c, 130),
        dense(c, variants()),
        field_pairs(c, variants()),
        field_triples(c, variants()),
        calendar(c),
        text_dictionary(c, variants()),
        list_relations(c),
        binary_marker(c),
        ascii_payloads(c),
    ];
    if tier == Tier::Thorough {
        v.push(ball(c, 2, variants()));
        v.push(field_full("MSG-FIELD(all<=14)", c, variants(), |_| true, 1, 14));
        v.push(radio(c));
        v.push(text_deviations(c, variants(), false));
        v.push(text_trim(c, variants()));
    }
    v
}
