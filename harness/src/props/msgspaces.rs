//! Bounded payload spaces for `messages::parse` (DESIGN.md §3.4). Every space is index-addressable
//! and enumerated completely.
use super::msgjudge::{judge_payload, Cfg};
use crate::par::{Radix, Space};
use crate::spec::msg::{self, set_bits, Class, SF};

/// One layout variant: a message type at a nominal length with its branch selectors fixed.
#[derive(Clone, Debug)]
pub struct Variant {
    pub name: String,
    pub t: u8,
    pub nbytes: usize,
    /// (bit offset, width, value) selector fields fixed on top of the base pattern
    pub fix: Vec<(usize, usize, u64)>,
}

impl Variant {
    fn new(name: &str, t: u8, nbytes: usize, fix: &[(usize, usize, u64)]) -> Variant {
        let mut f = vec![(0usize, 6usize, t as u64)];
        f.extend_from_slice(fix);
        Variant {
            name: name.to_string(),
            t,
            nbytes,
            fix: f,
        }
    }
    /// base payload number `pat` (0 zeros, 1 ones, 2 0xAA, 3 0x55), selectors applied
    pub fn base(&self, pat: u64) -> Vec<u8> {
        let fillb = match pat {
            0 => 0x00,
            1 => 0xFF,
            2 => 0xAA,
            _ => 0x55,
        };
        let mut p = vec![fillb; self.nbytes];
        for &(o, w, v) in &self.fix {
            set_bits(&mut p, o, w, v);
        }
        p
    }
    pub fn nbits(&self) -> usize {
        self.nbytes * 8
    }
}

/// The 21 layouts × their branches, each at its nominal byte length.
pub fn variants() -> Vec<Variant> {
    let mut v = Vec::new();
    for t in [1u8, 2, 3, 4, 11] {
        v.push(Variant::new(&format!("T{}", t), t, 21, &[]));
    }
    // SOTDMA sub-message kinds by slot time-out (bits 151..153)
    for tmo in [0u64, 1, 2, 3] {
        v.push(Variant::new(&format!("T1.timeout{}", tmo), 1, 21, &[(151, 3, tmo)]));
    }
    v.push(Variant::new("T5", 5, 53, &[]));
    v.push(Variant::new("T5.truncated", 5, 45, &[]));
    v.push(Variant::new("T6", 6, 19, &[]));
    for n in 1..=4usize {
        v.push(Variant::new(&format!("T7.acks{}", n), 7, 5 + 4 * n, &[]));
        v.push(Variant::new(&format!("T13.acks{}", n), 13, 5 + 4 * n, &[]));
    }
    v.push(Variant::new("T8", 8, 15, &[]));
    v.push(Variant::new("T9.sotdma", 9, 21, &[(148, 1, 0)]));
    v.push(Variant::new("T9.itdma", 9, 21, &[(148, 1, 1)]));
    v.push(Variant::new("T10", 10, 9, &[]));
    v.push(Variant::new("T12", 12, 17, &[]));
    v.push(Variant::new("T14", 14, 13, &[]));
    v.push(Variant::new("T15.88", 15, 11, &[]));
    v.push(Variant::new("T15.110", 15, 14, &[]));
    v.push(Variant::new("T15.160", 15, 20, &[]));
    v.push(Variant::new("T16.one", 16, 12, &[]));
    v.push(Variant::new("T16.two", 16, 18, &[]));
    v.push(Variant::new("T17", 17, 23, &[]));
    v.push(Variant::new("T18.sotdma", 18, 21, &[(148, 1, 0)]));
    v.push(Variant::new("T18.itdma", 18, 21, &[(148, 1, 1)]));
    v.push(Variant::new("T19", 19, 39, &[]));
    for (n, nb) in [(1usize, 9usize), (2, 13), (3, 17), (4, 20)] {
        v.push(Variant::new(&format!("T20.res{}", n), 20, nb, &[]));
    }
    v.push(Variant::new("T21", 21, 34, &[]));
    v.push(Variant::new("T21.ext", 21, 45, &[]));
    v.push(Variant::new("T24.A", 24, 20, &[(38, 2, 0)]));
    v.push(Variant::new("T24.A.spare", 24, 21, &[(38, 2, 0)]));
    v.push(Variant::new("T24.B", 24, 21, &[(38, 2, 1)]));
    v.push(Variant::new("T24.part2", 24, 20, &[(38, 2, 2)]));
    v.push(Variant::new("T24.part3", 24, 21, &[(38, 2, 3)]));
    v.push(Variant::new("T27", 27, 12, &[]));
    v
}

/// Fields of a variant (location + class), taken from the reference decoder on its zero base.
pub fn fields_of(v: &Variant) -> Vec<SF> {
    msg::expect(&v.base(0)).fields
}

// ---------------------------------------------------------------------------------------------

fn flip(p: &mut [u8], bit: usize) {
    p[bit / 8] ^= 0x80 >> (bit % 8);
}

/// index -> (i, j) with i < j < n, enumerating all pairs
fn pair_of(n: u64, k: u64) -> (u64, u64) {
    // row i has (n-1-i) pairs; find i by solving the triangular prefix
    let mut lo = 0u64;
    let mut hi = n - 1;
    let before = |i: u64| i * (2 * n - i - 1) / 2;
    while lo + 1 < hi {
        let mid = (lo + hi) / 2;
        if before(mid) <= k {
            lo = mid;
        } else {
            hi = mid;
        }
    }
    let i = lo;
    let j = i + 1 + (k - before(i));
    (i, j)
}

/// MSG-BALL(r): every payload within Hamming distance <= r (r in 1..=2) of each of the 4 base
/// patterns of each layout variant, at its nominal length.
pub fn ball(cfg: Cfg, r: u32, vars: Vec<Variant>) -> Space {
    let mut starts = Vec::new();
    let mut total = 0u64;
    for v in &vars {
        starts.push(total);
        let n = v.nbits() as u64;
        let per = 1 + n + if r >= 2 { n * (n - 1) / 2 } else { 0 };
        total += per * 4;
    }
    let nv = vars.len();
    Space::new(
        &format!("MSG-BALL({})", r),
        &format!(
            "every payload within Hamming distance <= {} of 4 base patterns (00/FF/AA/55) of each of {} layout variants at nominal length",
            r, nv
        ),
        total,
        move |i, l| {
            let vi = match starts.binary_search(&i) {
                Ok(x) => x,
                Err(x) => x - 1,
            };
            let v = &vars[vi];
            let n = v.nbits() as u64;
            let per = 1 + n + if r >= 2 { n * (n - 1) / 2 } else { 0 };
            let k = i - starts[vi];
            let pat = k / per;
            let k = k % per;
            let mut p = v.base(pat);
            if k == 0 {
            } else if k <= n {
                flip(&mut p, (k - 1) as usize);
            } else {
                let (a, b) = pair_of(n, k - 1 - n);
                flip(&mut p, a as usize);
                flip(&mut p, b as usize);
            }
            judge_payload(l, &p, cfg);
        },
    )
}

/// MSG-BALL(1) at EVERY length 0..=max_len bytes for all 64 type values (C01, C09, C14).
pub fn ball1_all_lengths(cfg: Cfg, max_len: usize) -> Space {
    // per (type, len): 4 patterns × (1 + 8·len) cases
    let mut starts = Vec::new();
    let mut total = 0u64;
    for len in 0..=max_len {
        starts.push(total);
        total += 64 * 4 * (1 + 8 * len as u64);
    }
    Space::new(
        "MSG-BALL1-LEN",
        &format!("64 type values x every length 0..={} bytes x 4 patterns x (base + every single-bit flip)", max_len),
        total,
        move |i, l| {
            let li = match starts.binary_search(&i) {
                Ok(x) => x,
                Err(x) => x - 1,
            };
            let len = li;
            let mut r = Radix(i - starts[li]);
            let t = r.take(64);
            let pat = r.take(4);
            let k = r.0;
            let fillb = [0x00u8, 0xFF, 0xAA, 0x55][pat as usize];
            let mut p = vec![fillb; len];
            set_bits(&mut p, 0, 6, t);
            if k > 0 {
                flip(&mut p, (k - 1) as usize);
            }
            judge_payload(l, &p, cfg);
        },
    )
}

pub const LEN_EXTRA: [usize; 6] = [255, 256, 384, 385, 512, 1024];

/// MSG-LEN: 64 type values × every length 0..=132 and a few large ones × 5 content patterns. The
/// fifth pattern makes every list element / character distinct and non-zero.
pub fn lengths(cfg: Cfg) -> Space {
    let mut lens: Vec<usize> = (0..=132).collect();
    lens.extend(LEN_EXTRA);
    let nl = lens.len() as u64;
    // part selector for type 24 and selector for 9/18 are varied through an extra digit
    Space::new(
        "MSG-LEN",
        "64 type values x every length 0..=132 and {255,256,384,385,512,1024} bytes x 5 patterns {00,FF,AA,55,position-coded} x 4 settings of bits 38..39",
        64 * nl * 5 * 4,
        move |i, l| {
            let mut r = Radix(i);
            let t = r.take(64);
            let len = lens[r.take(nl) as usize];
            let pat = r.take(5);
            let part = r.take(4);
            let mut p: Vec<u8> = match pat {
                0 => vec![0x00; len],
                1 => vec![0xFF; len],
                2 => vec![0xAA; len],
                3 => vec![0x55; len],
                _ => (0..len).map(|j| (j as u8).wrapping_mul(37).wrapping_add(11)).collect(),
            };
            set_bits(&mut p, 0, 6, t);
            if pat < 4 && len >= 5 {
                set_bits(&mut p, 38, 2, part);
            } else if part != 0 {
                l.skip();
                return;
            }
            judge_payload(l, &p, cfg);
        },
    )
}

/// Which fields a sweep targets.
pub type FieldSel = fn(&SF) -> bool;

pub fn sel_int(s: &SF) -> bool {
    matches!(s.class, Class::Int | Class::Type)
}
pub fn sel_scaled(s: &SF) -> bool {
    s.class == Class::Scaled
}
pub fn sel_scaled_opt(s: &SF) -> bool {
    matches!(s.class, Class::Scaled | Class::Opt)
}
pub fn sel_enum(s: &SF) -> bool {
    s.class == Class::Enum
}

#[derive(Clone, Debug)]
struct Target {
    vi: usize,
    off: usize,
    w: usize,
    name: String,
}

fn targets(vars: &[Variant], sel: FieldSel, min_w: usize, max_w: usize) -> Vec<Target> {
    let mut out: Vec<Target> = Vec::new();
    for (vi, v) in vars.iter().enumerate() {
        for s in fields_of(v) {
            let w = s.w as usize;
            if !sel(&s) || w < min_w || w > max_w || w == 0 {
                continue;
            }
            // radio pseudo-fields overlap; text/bin are handled by their own spaces
            if out.iter().any(|t| t.vi == vi && t.off == s.off as usize && t.w == w) {
                continue;
            }
            out.push(Target {
                vi,
                off: s.off as usize,
                w,
                name: format!("{}.{}", v.name, s.id),
            });
        }
    }
    out
}

/// MSG-FIELD: for every selected field of width <= max_w of every variant: ALL 2^w values ×
/// 16 contexts (4 whole-payload patterns × left-neighbour bit {kept, flipped} × right-neighbour bit
/// {kept, flipped}).
pub fn field_full(name: &str, cfg: Cfg, vars: Vec<Variant>, sel: FieldSel, min_w: usize, max_w: usize) -> Space {
    let tg = targets(&vars, sel, min_w, max_w);
    let mut starts = Vec::new();
    let mut total = 0u64;
    for t in &tg {
        starts.push(total);
        total += (1u64 << t.w) * 16;
    }
    let nt = tg.len();
    Space::new(
        name,
        &format!(
            "{} fields (width {}..={} bits) over all layout variants: all 2^w values x 16 contexts (4 payload patterns x both neighbour bits kept/flipped)",
            nt, min_w, max_w
        ),
        total,
        move |i, l| {
            let ti = match starts.binary_search(&i) {
                Ok(x) => x,
                Err(x) => x - 1,
            };
            let t = &tg[ti];
            let v = &vars[t.vi];
            let mut r = Radix(i - starts[ti]);
            let val = r.take(1u64 << t.w);
            let pat = r.take(4);
            let lf = r.take(2);
            let rf = r.take(2);
            let mut p = v.base(pat);
            if lf == 1 {
                if t.off == 0 {
                    l.skip();
                    return;
                }
                flip(&mut p, t.off - 1);
            }
            if rf == 1 {
                if t.off + t.w >= v.nbits() {
                    l.skip();
                    return;
                }
                flip(&mut p, t.off + t.w);
            }
            // selectors first, then the target (the target may itself be a selector)
            set_bits(&mut p, t.off, t.w, val);
            judge_payload(l, &p, cfg);
        },
    )
}

/// Interesting anchors of a w-bit field: 0, all ones, sign boundary, the coordinate sentinels and
/// their neighbours, ±180°/±90° (for the widths that carry them).
fn anchors(w: usize) -> Vec<u64> {
    let mask = (1u64 << w) - 1;
    let mut a = vec![0, mask, 1u64 << (w - 1), (1u64 << (w - 1)) - 1, 1, mask - 1];
    let signed: &[i64] = match w {
        28 => &[108_600_000, 108_600_001, 108_599_999, 108_000_000, -108_000_000, 54_600_000, 108_600, -108_600_000],
        27 => &[54_600_000, 54_600_001, 54_599_999, 54_000_000, -54_000_000, 54_600, -54_600_000],
        18 => &[108_600, 108_601, 108_599, 108_000, -108_000, 54_600],
        17 => &[54_600, 54_601, 54_599, 54_000, -54_000],
        _ => &[],
    };
    for &s in signed {
        a.push((s as u64) & mask);
    }
    a.sort();
    a.dedup();
    a
}

/// MSG-FIELD-WIDE (quick tier for fields wider than `min_w`): every value within Hamming distance
/// <= 3 of each anchor, plus all settings of the high 18 bits × 4 low patterns and of the low 18
/// bits × 4 high patterns; × 4 payload patterns.
pub fn field_wide(name: &str, cfg: Cfg, vars: Vec<Variant>, sel: FieldSel, min_w: usize, npat: u64, nother: u64) -> Space {
    let tg = targets(&vars, sel, min_w, 64);
    // per target: anchors × (1 + w + C(w,2) + C(w,3)) + 2 × 2^18 × 4
    let c3 = |w: u64| 1 + w + w * (w - 1) / 2 + w * (w - 1) * (w - 2) / 6;
    let mut starts = Vec::new();
    let mut total = 0u64;
    let mut per: Vec<(u64, u64)> = Vec::new();
    for t in &tg {
        starts.push(total);
        let a = anchors(t.w).len() as u64 * c3(t.w as u64);
        let b = 2 * (1u64 << 18) * nother;
        per.push((a, b));
        total += (a + b) * npat;
    }
    let nt = tg.len();
    Space::new(
        name,
        &format!(
            "{} fields wider than {} bits: all values within Hamming distance <= 3 of the anchors (0, -1, min, max, sentinels +-1, +-180/90 deg) + all 2^18 settings of the high 18 bits x {} low patterns + all 2^18 of the low 18 bits x {} high patterns; x {} payload patterns",
            nt,
            min_w - 1,
            nother,
            nother,
            npat
        ),
        total,
        move |i, l| {
            let ti = match starts.binary_search(&i) {
                Ok(x) => x,
                Err(x) => x - 1,
            };
            let t = &tg[ti];
            let v = &vars[t.vi];
            let (na, _nb) = per[ti];
            let mut r = Radix(i - starts[ti]);
            let pat = r.take(npat);
            let k = r.0;
            let w = t.w as u64;
            let mask = (1u64 << w) - 1;
            let val0 = if k < na {
                let an = anchors(t.w);
                let per_anchor = c3(w);
                let a = an[(k / per_anchor) as usize];
                let mut j = k % per_anchor;
                // j: 0 none; then singles; then pairs; then triples
                if j == 0 {
                    a
                } else if j <= w {
                    a ^ (1 << (j - 1))
                } else if j <= w + w * (w - 1) / 2 {
                    let (x, y) = pair_of(w, j - 1 - w);
                    a ^ (1 << x) ^ (1 << y)
                } else {
                    j -= 1 + w + w * (w - 1) / 2;
                    // triple index -> (x<y<z): x by rows of pairs
                    let mut x = 0u64;
                    loop {
                        let rem = w - 1 - x;
                        let cnt = rem * (rem - 1) / 2;
                        if j < cnt {
                            break;
                        }
                        j -= cnt;
                        x += 1;
                    }
                    let (y, z) = pair_of(w - 1 - x, j);
                    a ^ (1 << x) ^ (1 << (x + 1 + y)) ^ (1 << (x + 1 + z))
                }
            } else {
                let mut r2 = Radix(k - na);
                let which = r2.take(2);
                let other = r2.take(nother);
                let bits18 = r2.take(1 << 18);
                let rest_w = w - 18;
                let rest_mask = (1u64 << rest_w) - 1;
                let rest = match other {
                    0 => 0,
                    1 => rest_mask,
                    2 => 0xAAAA_AAAA_AAAA_AAAA & rest_mask,
                    _ => 0x5555_5555_5555_5555 & rest_mask,
                };
                if which == 0 {
                    (bits18 << rest_w) | rest
                } else {
                    (rest << 18) | bits18
                }
            };
            let val = val0 & mask;
            let mut p = v.base(pat);
            set_bits(&mut p, t.off, t.w, val);
            judge_payload(l, &p, cfg);
        },
    )
}

/// Complete 2^w sweep of ONE wide field in one context (thorough tier).
pub fn field_complete(cfg: Cfg, v: Variant, s: &SF) -> Space {
    let off = s.off as usize;
    let w = s.w as usize;
    let name = format!("MSG-FIELD-COMPLETE({}.{})", v.name, s.id);
    Space::new(
        &name,
        &format!("all 2^{} values of the field at bit {} in layout {}, zero context", w, off, v.name),
        1u64 << w,
        move |i, l| {
            let mut p = v.base(0);
            set_bits(&mut p, off, w, i);
            judge_payload(l, &p, cfg);
        },
    )
}

/// MSG-RADIO: all 2^19 communication states (2^20 with the selector for types 9 and 18) in two
/// surrounding contexts.
pub fn radio(cfg: Cfg) -> Space {
    // (type, first bit, width)
    let tg: Vec<(u8, usize, usize)> = vec![
        (1, 149, 19),
        (2, 149, 19),
        (3, 149, 19),
        (4, 149, 19),
        (11, 149, 19),
        (9, 148, 20),
        (18, 148, 20),
    ];
    let mut starts = Vec::new();
    let mut total = 0u64;
    for t in &tg {
        starts.push(total);
        total += (1u64 << t.2) * 2;
    }
    Space::new(
        "MSG-RADIO",
        "all 2^19 communication states in types 1,2,3,4,11 and all 2^20 (selector+state) in types 9 and 18, each in 2 surrounding contexts (00 / FF)",
        total,
        move |i, l| {
            let ti = match starts.binary_search(&i) {
                Ok(x) => x,
                Err(x) => x - 1,
            };
            let (t, off, w) = tg[ti];
            let mut r = Radix(i - starts[ti]);
            let ctx = r.take(2);
            let val = r.0;
            let mut p = vec![if ctx == 0 { 0u8 } else { 0xFF }; 21];
            set_bits(&mut p, 0, 6, t as u64);
            set_bits(&mut p, off, w, val);
            judge_payload(l, &p, cfg);
        },
    )
}

// ---------------------------------------------------------------------------------------------
// text spaces (C13)

#[derive(Clone, Debug)]
pub struct TextField {
    pub vi: usize,
    pub off: usize,
    pub nchars: usize,
    pub name: String,
}

pub fn text_fields(vars: &[Variant]) -> Vec<TextField> {
    let mut out: Vec<TextField> = Vec::new();
    for (vi, v) in vars.iter().enumerate() {
        for s in fields_of(v) {
            if s.class != Class::Text || s.w == 0 {
                continue;
            }
            out.push(TextField {
                vi,
                off: s.off as usize,
                nchars: s.w as usize / 6,
                name: format!("{}.{}", v.name, s.id),
            });
        }
    }
    out
}

fn base_text(kind: u64, n: usize) -> Vec<u8> {
    (0..n)
        .map(|i| match kind {
            0 => 0u8,                          // all '@'
            1 => 32,                           // all spaces
            2 => ((i * 7 + 1) % 31 + 1) as u8, // letters
            _ => ((i * 11 + 33) % 64) as u8,   // mixed, no particular structure
        })
        .collect()
}

fn put_text(p: &mut [u8], off: usize, chars: &[u8]) {
    for (i, &c) in chars.iter().enumerate() {
        set_bits(p, off + 6 * i, 6, c as u64);
    }
}

/// One and two character deviations: every character value at every position, and at every pair of
/// positions, from 4 base strings, for every text field.
pub fn text_deviations(cfg: Cfg, vars: Vec<Variant>, pairs: bool) -> Space {
    let tf = text_fields(&vars);
    let mut starts = Vec::new();
    let mut total = 0u64;
    for t in &tf {
        starts.push(total);
        let n = t.nchars as u64;
        total += 4 * (n * 64 + if pairs { n * (n.saturating_sub(1)) / 2 * 64 * 64 } else { 0 });
    }
    let nt = tf.len();
    Space::new(
        if pairs { "MSG-TEXT-DEV2" } else { "MSG-TEXT-DEV1" },
        &format!(
            "{} text fields x 4 base strings x every position x all 64 characters{}",
            nt,
            if pairs { " + every pair of positions x 64^2" } else { "" }
        ),
        total,
        move |i, l| {
            let ti = match starts.binary_search(&i) {
                Ok(x) => x,
                Err(x) => x - 1,
            };
            let t = &tf[ti];
            let v = &vars[t.vi];
            let n = t.nchars as u64;
            let mut r = Radix(i - starts[ti]);
            let kind = r.take(4);
            let k = r.0;
            let mut txt = base_text(kind, t.nchars);
            if k < n * 64 {
                txt[(k / 64) as usize] = (k % 64) as u8;
            } else {
                let mut r2 = Radix(k - n * 64);
                let c0 = r2.take(64) as u8;
                let c1 = r2.take(64) as u8;
                let (a, b) = pair_of(n, r2.0);
                txt[a as usize] = c0;
                txt[b as usize] = c1;
            }
            let mut p = v.base(if kind % 2 == 0 { 0 } else { 1 });
            put_text(&mut p, t.off, &txt);
            judge_payload(l, &p, cfg);
        },
    )
}

/// Trim classes: every string over {'@',' ','A','?'} in the first 3 and last 4 positions × 3
/// interiors, for every text field of >= 7 characters; complete 4^n for shorter fields.
pub fn text_trim(cfg: Cfg, vars: Vec<Variant>) -> Space {
    let tf = text_fields(&vars);
    let cls = [0u8, 32, 1, 63];
    let mut starts = Vec::new();
    let mut total = 0u64;
    for t in &tf {
        starts.push(total);
        total += if t.nchars >= 7 { 4u64.pow(7) * 3 } else { 4u64.pow(t.nchars as u32) };
    }
    Space::new(
        "MSG-TEXT-TRIM",
        "every text field: all strings over the trim-relevant classes {'@',' ','A','?'} in the first 3 and last 4 positions x 3 interiors (fields < 7 chars: complete 4^n)",
        total,
        move |i, l| {
            let ti = match starts.binary_search(&i) {
                Ok(x) => x,
                Err(x) => x - 1,
            };
            let t = &tf[ti];
            let v = &vars[t.vi];
            let mut r = Radix(i - starts[ti]);
            let n = t.nchars;
            let mut txt = vec![0u8; n];
            if n >= 7 {
                let interior = r.take(3);
                for c in txt.iter_mut() {
                    *c = match interior {
                        0 => 0,
                        1 => 32,
                        _ => 2,
                    };
                }
                for pos in [0, 1, 2, n - 4, n - 3, n - 2, n - 1] {
                    txt[pos] = cls[r.take(4) as usize];
                }
            } else {
                for c in txt.iter_mut() {
                    *c = cls[r.take(4) as usize];
                }
            }
            let mut p = v.base(0);
            put_text(&mut p, t.off, &txt);
            judge_payload(l, &p, cfg);
        },
    )
}

/// Complete 64^n for one short text field (vendor id: n = 3; model/serial: n = 4).
pub fn text_complete(cfg: Cfg, v: Variant, off: usize, nchars: usize, label: &str) -> Space {
    Space::new(
        &format!("MSG-TEXT-COMPLETE({})", label),
        &format!("all 64^{} strings of the field", nchars),
        64u64.pow(nchars as u32),
        move |i, l| {
            let mut r = Radix(i);
            let mut p = v.base(0);
            for k in 0..nchars {
                set_bits(&mut p, off + 6 * k, 6, r.take(64));
            }
            judge_payload(l, &p, cfg);
        },
    )
}

/// Safety text of types 12/14: every text length 1..=max characters (all byte lengths), contents
/// position-coded / all '@' / all spaces / 'A' with padding tails.
pub fn text_lengths(cfg: Cfg, max_bytes: usize) -> Space {
    Space::new(
        "MSG-TEXT-LEN",
        &format!("types 12 and 14 x every payload length 5..={} bytes x 5 contents", max_bytes),
        2 * (max_bytes as u64 - 4) * 5,
        move |i, l| {
            let mut r = Radix(i);
            let t = if r.take(2) == 0 { 12u64 } else { 14 };
            let kind = r.take(5);
            let len = 5 + r.0 as usize;
            let off = if t == 12 { 72 } else { 40 };
            let mut p = vec![0u8; len];
            set_bits(&mut p, 0, 6, t);
            set_bits(&mut p, 8, 30, 123456789);
            let nbits = len * 8;
            if nbits > off {
                let n = (nbits - off) / 6;
                for k in 0..n {
                    let c = match kind {
                        0 => ((k * 37 + 11) % 64) as u64,
                        1 => 0,
                        2 => 32,
                        3 => {
                            if k + 3 < n {
                                1
                            } else {
                                0
                            }
                        }
                        _ => {
                            if k < 2 || k + 2 >= n {
                                32
                            } else {
                                (k % 26 + 1) as u64
                            }
                        }
                    };
                    set_bits(&mut p, off + 6 * k, 6, c);
                }
            }
            judge_payload(l, &p, cfg);
        },
    )
}

// ---------------------------------------------------------------------------------------------
// binary spaces (C15)

/// Types 6, 8, 17: every data length 0..=max_data bytes × 3 contents × (base + every single-bit
/// deviation in header and data).
pub fn binary(cfg: Cfg, max_data: usize) -> Space {
    // (type, header bytes)
    let kinds: [(u64, usize); 3] = [(6, 11), (8, 7), (17, 15)];
    let mut starts = Vec::new();
    let mut total = 0u64;
    for &(_, h) in &kinds {
        for d in 0..=max_data {
            starts.push(total);
            total += 3 * (1 + 8 * (h + d) as u64);
        }
    }
    Space::new(
        "MSG-BIN",
        &format!("types 6, 8, 17 x every data length 0..={} bytes x contents {{position-coded, zeros, ones}} x (base + every single-bit deviation in header and data)", max_data),
        total,
        move |i, l| {
            let si = match starts.binary_search(&i) {
                Ok(x) => x,
                Err(x) => x - 1,
            };
            let (t, h) = kinds[si / (max_data + 1)];
            let d = si % (max_data + 1);
            let mut r = Radix(i - starts[si]);
            let content = r.take(3);
            let k = r.0;
            let len = h + d;
            let mut p: Vec<u8> = (0..len)
                .map(|j| match content {
                    0 => (j as u8).wrapping_mul(37).wrapping_add(11),
                    1 => 0,
                    _ => 0xFF,
                })
                .collect();
            set_bits(&mut p, 0, 6, t);
            if k > 0 {
                flip(&mut p, (k - 1) as usize);
            }
            judge_payload(l, &p, cfg);
        },
    )
}

// ---------------------------------------------------------------------------------------------
// MSG-VIA-LINE: the same payloads through the sentence path

/// For every layout variant × 5 contents × every bit length in the last byte (nbits-7..=nbits) ×
/// padding bits {0,1} × every fill 0..=5: armor, wrap into a sentence, parse with decoding on and
/// compare with the reference decoder applied to the reference unarmoring.
pub fn via_line(cfg: Cfg) -> Space {
    use crate::canon::Out;
    use crate::spec::line::sentence;
    use crate::spec::unarmor::{armor_bits, unarmor_ref};
    use crate::subj::{DecodeOut, Parser};
    let vars = variants();
    let nv = vars.len() as u64;
    Space::new(
        "MSG-VIA-LINE",
        &format!("{} layout variants x 5 contents x bit lengths nbits-7..=nbits x padding {{0,1}} x fill 0..=5, through AisParser::parse(line, true)", nv),
        nv * 5 * 8 * 2 * 6,
        move |i, l| {
            let mut r = Radix(i);
            let fill = r.take(6) as u8;
            let pad = r.take(2) as u8;
            let cut = r.take(8) as usize;
            let pat = r.take(5);
            let v = &vars[r.0 as usize];
            let mut p = if pat < 4 {
                v.base(pat)
            } else {
                let mut q: Vec<u8> = (0..v.nbytes).map(|j| (j as u8).wrapping_mul(29).wrapping_add(7)).collect();
                for &(o, w, val) in &v.fix {
                    set_bits(&mut q, o, w, val);
                }
                q
            };
            let nbits = v.nbits() - cut;
            // bits beyond nbits are not transmitted
            for b in nbits..v.nbits() {
                set_bits(&mut p, b, 1, 0);
            }
            let (chars, _natural_fill) = armor_bits(&p, nbits, pad);
            let line = sentence(1, 1, b"", &chars, fill);
            let mut parser = Parser::new();
            let out = parser.parse(&line, true);
            let bytes = unarmor_ref(&chars, fill as usize).unwrap();
            let exp = msg::expect(&bytes);
            let got = match out {
                Out::Complete(s) => match s.msg {
                    Some(f) => DecodeOut::Ok(f),
                    None => DecodeOut::Panic("Complete without a message although decoding was requested".into()),
                },
                Out::Incomplete(_) => DecodeOut::Panic("unfragmented sentence yielded Incomplete".into()),
                Out::Err(e) => DecodeOut::Err(e),
                Out::Panic(p) => DecodeOut::Panic(p),
            };
            super::msgjudge::judge_decoded(l, &bytes, &exp, &got, cfg);
        },
    )
}

// ---------------------------------------------------------------------------------------------
// joint assignments

const PAIR_MENU: usize = 7;
fn menu_value(k: u64, w: usize) -> u64 {
    let mask = if w >= 64 { u64::MAX } else { (1u64 << w) - 1 };
    (match k {
        0 => 0,
        1 => 1,
        2 => mask,
        3 => 1u64 << (w - 1),
        4 => mask >> 1,
        5 => 0xAAAA_AAAA_AAAA_AAAA,
        _ => 0x5555_5555_5555_5555,
    }) & mask
}

/// MSG-PAIR: for EVERY pair of fields of every layout variant (not only adjacent ones): 7×7 boundary
/// values {0, 1, all ones, sign bit only, all but the sign bit, 1010…, 0101…} × 2 base patterns.
/// This is the "jointly with its neighbours" clause of C04 beyond two flipped bits.
pub fn field_pairs(cfg: Cfg, vars: Vec<Variant>) -> Space {
    // distinct (off, w) locations per variant
    let locs: Vec<Vec<(usize, usize)>> = vars
        .iter()
        .map(|v| {
            let mut l: Vec<(usize, usize)> = Vec::new();
            for s in fields_of(v) {
                let x = (s.off as usize, s.w as usize);
                if x.1 > 0 && x.1 <= 30 && !l.contains(&x) {
                    l.push(x);
                }
            }
            l
        })
        .collect();
    let mut starts = Vec::new();
    let mut total = 0u64;
    for l in &locs {
        starts.push(total);
        let n = l.len() as u64;
        total += n * (n - 1) / 2 * (PAIR_MENU * PAIR_MENU) as u64 * 2;
    }
    Space::new(
        "MSG-PAIR",
        "every pair of fields of every layout variant x 7x7 boundary values {0,1,all ones,sign bit,max positive,1010..,0101..} x 2 base patterns",
        total,
        move |i, l| {
            let vi = match starts.binary_search(&i) {
                Ok(x) => x,
                Err(x) => x - 1,
            };
            let v = &vars[vi];
            let lc = &locs[vi];
            let mut r = Radix(i - starts[vi]);
            let pat = r.take(2);
            let a = r.take(PAIR_MENU as u64);
            let b = r.take(PAIR_MENU as u64);
            let (x, y) = pair_of(lc.len() as u64, r.0);
            let (fo, fw) = lc[x as usize];
            let (go, gw) = lc[y as usize];
            let mut p = v.base(pat);
            set_bits(&mut p, fo, fw, menu_value(a, fw));
            set_bits(&mut p, go, gw, menu_value(b, gw));
            // overlapping pseudo-fields (text read two ways, radio sub-messages) simply overwrite
            judge_payload(l, &p, cfg);
        },
    )
}

/// MSG-DENSE: payloads in which EVERY field is non-trivial at once: 256 deterministic fillings
/// p[j] = (a·j + b) mod 256, a ∈ 16 odd multipliers, b ∈ 16 offsets, selectors re-applied, each
/// with every single-bit deviation.
pub fn dense(cfg: Cfg, vars: Vec<Variant>) -> Space {
    let mut starts = Vec::new();
    let mut total = 0u64;
    for v in &vars {
        starts.push(total);
        total += 256 * (1 + v.nbits() as u64);
    }
    Space::new(
        "MSG-DENSE",
        "every layout variant x 256 dense fillings p[j]=(a*j+b) mod 256 (16 odd multipliers x 16 offsets) x (base + every single-bit deviation)",
        total,
        move |i, l| {
            let vi = match starts.binary_search(&i) {
                Ok(x) => x,
                Err(x) => x - 1,
            };
            let v = &vars[vi];
            let mut r = Radix(i - starts[vi]);
            let a = [3u8, 5, 7, 11, 13, 29, 37, 53, 71, 89, 101, 131, 151, 173, 199, 233][r.take(16) as usize];
            let b = (r.take(16) as u8).wrapping_mul(17).wrapping_add(1);
            let k = r.0;
            let mut p: Vec<u8> = (0..v.nbytes).map(|j| (j as u8).wrapping_mul(a).wrapping_add(b)).collect();
            for &(o, w, val) in &v.fix {
                set_bits(&mut p, o, w, val);
            }
            if k > 0 {
                flip(&mut p, (k - 1) as usize);
            }
            judge_payload(l, &p, cfg);
        },
    )
}

// ---------------------------------------------------------------------------------------------
// three-way combinations

fn special_value(w: usize) -> u64 {
    match w {
        4 => 14,
        5 => 24,
        6 => 60,
        8 => 128,
        9 => 360,
        10 => 1022,
        12 => 3600,
        14 => 8191,
        17 => 54_600,
        18 => 108_600,
        27 => 54_600_000,
        28 => 108_600_000,
        30 => 970_000_000,
        _ => ((1u64 << w) - 1).saturating_sub(1),
    }
}

/// MSG-TRIPLE: every TRIPLE of fields of every layout variant × 5³ values {0, all ones, 1, 1010…,
/// the width's sentinel / a characteristic value}, zero context — behaviour that needs three fields
/// to have particular (boundary) values at once.
pub fn field_triples(cfg: Cfg, vars: Vec<Variant>) -> Space {
    let locs: Vec<Vec<(usize, usize)>> = vars
        .iter()
        .map(|v| {
            let mut l: Vec<(usize, usize)> = Vec::new();
            for s in fields_of(v) {
                let x = (s.off as usize, s.w as usize);
                // radio pseudo-fields overlap each other: keep the 19-bit state out, its parts in
                if x.1 > 0 && x.1 <= 30 && !l.contains(&x) && !l.iter().any(|&(o, w)| o == x.0 && w != x.1) {
                    l.push(x);
                }
            }
            l
        })
        .collect();
    let c3 = |n: u64| if n < 3 { 0 } else { n * (n - 1) * (n - 2) / 6 };
    let mut starts = Vec::new();
    let mut total = 0u64;
    for l in &locs {
        starts.push(total);
        total += c3(l.len() as u64) * 125;
    }
    Space::new(
        "MSG-TRIPLE",
        "every triple of fields of every layout variant x 5^3 values {0, all ones, 1, 1010.., sentinel/characteristic value of the width}, zero context",
        total,
        move |i, l| {
            let vi = match starts.binary_search(&i) {
                Ok(x) => x,
                Err(x) => x - 1,
            };
            let v = &vars[vi];
            let lc = &locs[vi];
            let n = lc.len() as u64;
            let mut r = Radix(i - starts[vi]);
            let vals = [r.take(5), r.take(5), r.take(5)];
            // triple index -> (x<y<z)
            let mut j = r.0;
            let mut x = 0u64;
            loop {
                let rem = n - 1 - x;
                let cnt = rem * (rem - 1) / 2;
                if j < cnt {
                    break;
                }
                j -= cnt;
                x += 1;
            }
            let (y, z) = pair_of(n - 1 - x, j);
            let idx = [x as usize, (x + 1 + y) as usize, (x + 1 + z) as usize];
            let mut p = v.base(0);
            for (k, &fi) in idx.iter().enumerate() {
                let (o, w) = lc[fi];
                let mask = (1u64 << w) - 1;
                let val = match vals[k] {
                    0 => 0,
                    1 => mask,
                    2 => 1,
                    3 => 0xAAAA_AAAA_AAAA_AAAA & mask,
                    _ => special_value(w) & mask,
                };
                set_bits(&mut p, o, w, val);
            }
            judge_payload(l, &p, cfg);
        },
    )
}

/// MSG-TEXT-ADJ: every ADJACENT pair of positions × 64² characters, from 4 base strings, for every
/// text field (two-character sequences such as "@@", " @", "_?" anywhere in a field).
pub fn text_adjacent(cfg: Cfg, vars: Vec<Variant>) -> Space {
    let tf = text_fields(&vars);
    let mut starts = Vec::new();
    let mut total = 0u64;
    for t in &tf {
        starts.push(total);
        total += 4 * (t.nchars as u64 - 1) * 4096;
    }
    Space::new(
        "MSG-TEXT-ADJ",
        "every text field x 4 base strings x every adjacent pair of positions x 64^2 characters",
        total,
        move |i, l| {
            let ti = match starts.binary_search(&i) {
                Ok(x) => x,
                Err(x) => x - 1,
            };
            let t = &tf[ti];
            let v = &vars[t.vi];
            let mut r = Radix(i - starts[ti]);
            let kind = r.take(4);
            let c0 = r.take(64) as u8;
            let c1 = r.take(64) as u8;
            let pos = r.0 as usize;
            let mut txt = base_text(kind, t.nchars);
            txt[pos] = c0;
            txt[pos + 1] = c1;
            let mut p = v.base(if kind % 2 == 0 { 0 } else { 1 });
            put_text(&mut p, t.off, &txt);
            judge_payload(l, &p, cfg);
        },
    )
}

/// MSG-BIN-APPID: types 6 and 8 × ALL 2^16 (DAC, FID) pairs × 3 data lengths × 2 contents: the
/// payload must pass through untouched whatever the application identifier is.
pub fn binary_appid(cfg: Cfg) -> Space {
    Space::new(
        "MSG-BIN-APPID",
        "types 6 and 8 x all 2^16 (DAC, FID) values x data lengths {0, 9, 40} bytes x contents {position-coded, ones}",
        2 * 65536 * 3 * 2,
        move |i, l| {
            let mut r = Radix(i);
            let t = if r.take(2) == 0 { 6u64 } else { 8 };
            let content = r.take(2);
            let dlen = [0usize, 9, 40][r.take(3) as usize];
            let appid = r.0;
            let (hdr, off) = if t == 6 { (11usize, 72usize) } else { (7, 40) };
            let mut p: Vec<u8> = (0..hdr + dlen)
                .map(|j| if content == 0 { (j as u8).wrapping_mul(37).wrapping_add(11) } else { 0xFF })
                .collect();
            set_bits(&mut p, 0, 6, t);
            set_bits(&mut p, off, 16, appid);
            judge_payload(l, &p, cfg);
        },
    )
}

// ---------------------------------------------------------------------------------------------
// domain-structured products

/// MSG-CALENDAR: date/time fields have calendar structure that code likes to special-case (end of
/// month, leap seconds, epochs). Types 4 and 11: 14 characteristic years × all 16 months × all 32 days
/// × hours {0,12,23,24,31} × minutes {0,59,60,63} × seconds {0,59,60,61,63}; type 5 ETA: the COMPLETE
/// 2^20 product month × day × hour × minute.
pub fn calendar(cfg: Cfg) -> Space {
    const YEARS: [u64; 14] = [0, 1, 1970, 1980, 1999, 2000, 2016, 2019, 2024, 2038, 2100, 8191, 9999, 16383];
    const HOURS: [u64; 5] = [0, 12, 23, 24, 31];
    const MINS: [u64; 4] = [0, 59, 60, 63];
    const SECS: [u64; 5] = [0, 59, 60, 61, 63];
    let per = 14 * 16 * 32 * 5 * 4 * 5;
    Space::new(
        "MSG-CALENDAR",
        "types 4 and 11: 14 characteristic years x 16 months x 32 days x hours {0,12,23,24,31} x minutes {0,59,60,63} x seconds {0,59,60,61,63}; type 5: complete 2^20 ETA product (month x day x hour x minute)",
        2 * per + (1 << 20),
        move |i, l| {
            if i < 2 * per {
                let mut r = Radix(i);
                let t = if r.take(2) == 0 { 4u64 } else { 11 };
                let sec = SECS[r.take(5) as usize];
                let min = MINS[r.take(4) as usize];
                let hour = HOURS[r.take(5) as usize];
                let day = r.take(32);
                let month = r.take(16);
                let year = YEARS[r.0 as usize];
                let mut p = vec![0u8; 21];
                set_bits(&mut p, 0, 6, t);
                set_bits(&mut p, 8, 30, 2_300_000);
                set_bits(&mut p, 38, 14, year);
                set_bits(&mut p, 52, 4, month);
                set_bits(&mut p, 56, 5, day);
                set_bits(&mut p, 61, 5, hour);
                set_bits(&mut p, 66, 6, min);
                set_bits(&mut p, 72, 6, sec);
                judge_payload(l, &p, cfg);
            } else {
                let v = i - 2 * per;
                let mut p = vec![0u8; 53];
                set_bits(&mut p, 0, 6, 5);
                set_bits(&mut p, 274, 20, v);
                judge_payload(l, &p, cfg);
            }
        },
    )
}

/// Words a decoder might be tempted to treat specially.
pub const DICTIONARY: [&str; 64] = [
    "N/A", "NA", "NONE", "NULL", "NIL", "UNKNOWN", "UNDEFINED", "UNAVAILABLE", "NOT AVAILABLE", "EMPTY", "TEST",
    "TESTING", "DEFAULT", "V-AIS", "VAIS", "VIRTUAL", "VIRTUAL AID", "SART", "AIS-SART", "SART ACTIVE", "SART TEST",
    "MOB", "MOB ACTIVE", "MOB TEST", "EPIRB", "EPIRB ACTIVE", "EPIRB TEST", "SAR", "RESCUE", "MAYDAY", "PAN PAN",
    "SECURITE", "SIMRAD", "GARMIN", "FURUNO", "ICOM", "SAAB", "JRC", "SRT", "RAYMARINE", "VESPER", "EM-TRAK", "ACR",
    "MCMURDO", "KODEN", "TRUE HEADING", "COMAR", "WEATHERDOCK", "AMEC", "DIGITAL YACHT", "0", "00000", "1234567",
    "AAAAAAA", "ZZZZZZZ", "???????", "@", "_", "A B", "A  B", "A@B", "A@@B", "@A", " A",
];

/// MSG-TEXT-DICT: every text field × 64 dictionary words × 6 placements (left aligned with '@' padding,
/// with space padding, right aligned, centred, repeated to fill, truncated to the field) × 2 contexts.
pub fn text_dictionary(cfg: Cfg, vars: Vec<Variant>) -> Space {
    let mut tf = text_fields(&vars);
    // text fields that touch each other are also filled as ONE field (a word spanning both)
    let mut joined = Vec::new();
    for a in &tf {
        for b in &tf {
            if a.vi == b.vi && a.off + 6 * a.nchars == b.off {
                joined.push(TextField {
                    vi: a.vi,
                    off: a.off,
                    nchars: a.nchars + b.nchars,
                    name: format!("{}+{}", a.name, b.name),
                });
            }
        }
    }
    tf.extend(joined);
    let nt = tf.len() as u64;
    Space::new(
        "MSG-TEXT-DICT",
        "every text field x 64 dictionary words (status words, device classes, maker names, degenerate strings) x 6 placements x 2 contexts",
        nt * 64 * 6 * 2,
        move |i, l| {
            let mut r = Radix(i);
            let ctx = r.take(2);
            let place = r.take(6);
            let w = DICTIONARY[r.take(64) as usize];
            let t = &tf[r.0 as usize];
            let v = &vars[t.vi];
            let n = t.nchars;
            let code = |c: u8| -> u8 {
                let c = c.to_ascii_uppercase();
                if (64..96).contains(&c) {
                    c - 64
                } else if (32..64).contains(&c) {
                    c
                } else {
                    63
                }
            };
            let wb: Vec<u8> = w.bytes().map(code).collect();
            let mut txt: Vec<u8> = match place {
                0 => vec![0u8; n],  // '@' padding
                1 => vec![32u8; n], // space padding
                2 => vec![32u8; n],
                3 => vec![0u8; n],
                4 => (0..n).map(|k| wb[k % wb.len()]).collect(),
                _ => vec![0u8; n],
            };
            match place {
                0 | 1 | 5 => {
                    for (k, &c) in wb.iter().take(n).enumerate() {
                        txt[k] = c;
                    }
                }
                2 => {
                    let m = wb.len().min(n);
                    for k in 0..m {
                        txt[n - m + k] = wb[k];
                    }
                }
                3 => {
                    let m = wb.len().min(n);
                    let st = (n - m) / 2;
                    for k in 0..m {
                        txt[st + k] = wb[k];
                    }
                }
                _ => {}
            }
            let mut p = v.base(ctx);
            put_text(&mut p, t.off, &txt);
            judge_payload(l, &p, cfg);
        },
    )
}

/// MSG-LIST-REL: relations BETWEEN list elements. Types 7/13: all 4^4 assignments of four MMSI
/// values (0, 1, 123456789, 2^30-1) × sequence numbers to the four slots (duplicates, every order).
/// Type 20: contiguous / overlapping reservation blocks: offset[i+1] = offset[i] + slots[i] + d,
/// d ∈ {-1, 0, 1}, over menus of offsets, ALL 16 slot counts, time-outs and increments, with an
/// optional third block.
pub fn list_relations(cfg: Cfg) -> Space {
    const MM: [u64; 4] = [0, 1, 123_456_789, (1 << 30) - 1];
    const OFFS: [u64; 8] = [0, 1, 100, 1125, 2000, 2234, 2235, 2249];
    const TMO: [u64; 3] = [0, 3, 7];
    const INC: [u64; 4] = [0, 1, 750, 2047];
    let n_ack = 2 * 256 * 4;
    let n_res = 8 * 16 * 3 * 4 * 3 * 2 * 2 * 2 * 2;
    Space::new(
        "MSG-LIST-REL",
        "types 7/13: all 4^4 assignments of 4 MMSI values to 4 acknowledgement slots x 4 sequence patterns; type 20: contiguous/overlapping reservation blocks (8 offsets x 16 slot counts x 3 time-outs x 4 increments x gap {-1,0,+1} x same/different time-out, increment, slot count x optional third block)",
        n_ack + n_res,
        move |i, l| {
            if i < n_ack {
                let mut r = Radix(i);
                let t = if r.take(2) == 0 { 7u64 } else { 13 };
                let seqpat = r.take(4);
                let mut p = vec![0u8; 21];
                set_bits(&mut p, 0, 6, t);
                set_bits(&mut p, 8, 30, 366_000_001);
                for k in 0..4usize {
                    let m = MM[r.take(4) as usize];
                    set_bits(&mut p, 40 + 32 * k, 30, m);
                    let sq = match seqpat {
                        0 => 0,
                        1 => 3,
                        2 => k as u64,
                        _ => 3 - k as u64,
                    };
                    set_bits(&mut p, 70 + 32 * k, 2, sq);
                }
                judge_payload(l, &p, cfg);
            } else {
                let mut r = Radix(i - n_ack);
                let third = r.take(2) == 1;
                let same_n = r.take(2) == 1;
                let same_inc = r.take(2) == 1;
                let same_t = r.take(2) == 1;
                let gap = r.take(3) as i64 - 1;
                let inc = INC[r.take(4) as usize];
                let tmo = TMO[r.take(3) as usize];
                let n = r.take(16);
                let off = OFFS[r.0 as usize];
                let nblocks = if third { 3 } else { 2 };
                let mut p = vec![0u8; if third { 17 } else { 13 }];
                set_bits(&mut p, 0, 6, 20);
                set_bits(&mut p, 8, 30, 2_442_001);
                let mut o = off as i64;
                for k in 0..nblocks {
                    let nk = if k == 0 || same_n { n } else { (n + 7) % 16 };
                    let tk = if k == 0 || same_t { tmo } else { (tmo + 1) % 8 };
                    let ik = if k == 0 || same_inc { inc } else { (inc + 1) % 2048 };
                    set_bits(&mut p, 40 + 30 * k, 12, (o.rem_euclid(4096)) as u64);
                    set_bits(&mut p, 52 + 30 * k, 4, nk);
                    set_bits(&mut p, 56 + 30 * k, 3, tk);
                    set_bits(&mut p, 59 + 30 * k, 11, ik);
                    o = o + nk as i64 + gap;
                }
                judge_payload(l, &p, cfg);
            }
        },
    )
}

/// MSG-BIN-MARKER: binary types 6, 8, 17 — the first data byte takes ALL 256 values while the next two
/// data bytes are {a copy of the two header bytes just before the data, 00 00, FF FF, the same byte
/// repeated}; header position-coded or zero. (Marker / preamble / "repeated header word" handling.)
pub fn binary_marker(cfg: Cfg) -> Space {
    let kinds: [(u64, usize); 3] = [(6, 11), (8, 7), (17, 15)];
    Space::new(
        "MSG-BIN-MARKER",
        "types 6, 8, 17 x first data byte 0..=255 x following two bytes {copy of the last two header bytes, 0000, FFFF, marker repeated} x 2 headers x 2 data lengths",
        3 * 256 * 4 * 2 * 2,
        move |i, l| {
            let mut r = Radix(i);
            let (t, h) = kinds[r.take(3) as usize];
            let b0 = r.take(256) as u8;
            let rel = r.take(4);
            let hdr = r.take(2);
            let dlen = if r.0 == 0 { 3usize } else { 24 };
            let mut p: Vec<u8> = (0..h + dlen)
                .map(|j| if hdr == 0 { 0 } else { (j as u8).wrapping_mul(29).wrapping_add(7) })
                .collect();
            set_bits(&mut p, 0, 6, t);
            if t == 17 && hdr == 1 {
                // a plausible DGNSS header: message type 1, station 0x2A5
                set_bits(&mut p, 80, 6, 1);
                set_bits(&mut p, 86, 10, 0x2A5);
            }
            p[h] = b0;
            let (c1, c2) = match rel {
                0 => (p[h - 2], p[h - 1]),
                1 => (0, 0),
                2 => (0xFF, 0xFF),
                _ => (b0, b0),
            };
            p[h + 1] = c1;
            p[h + 2] = c2;
            if t == 17 && rel == 0 {
                // for type 17 "the header" of the correction data is its first 16 bits (bits 80..95)
                p[h + 1] = p[10];
                p[h + 2] = p[11];
            }
            judge_payload(l, &p, cfg);
        },
    )
}

/// MSG-ASCII: text of the wrong layer passed as a payload — every seed sentence / line kind as raw
/// bytes (and its prefixes of 5..=21 bytes). The decoder must treat them as the bit strings they are.
pub fn ascii_payloads(cfg: Cfg) -> Space {
    let mut texts: Vec<Vec<u8>> = crate::props::lineprops::seeds().into_iter().filter(|s| s.len() <= 120).collect();
    for t in ["!AIVDM", "!AIVDO", "$AIVDM", "!BSVDM", "!ABVDO,1,1,,A,", "$GPGGA,", "\\s:x\\!AIVDM"] {
        texts.push(t.as_bytes().to_vec());
    }
    let nt = texts.len() as u64;
    Space::new(
        "MSG-ASCII",
        "every seed sentence and NMEA address as RAW payload bytes x prefixes of 5..=21 bytes and the whole text",
        nt * 18,
        move |i, l| {
            let t = &texts[(i / 18) as usize];
            let k = (i % 18) as usize;
            let len = if k == 17 { t.len() } else { (5 + k).min(t.len()) };
            if k < 17 && 5 + k > t.len() {
                l.skip();
                return;
            }
            judge_payload(l, &t[..len], cfg);
        },
    )
}
