//! C20 — the command-line tool survives any input stream.
//!
//! CLI-STREAMS(d): every sequence of <= d lines over 12 line kinds × final newline {present, absent}.
//! Each case runs the real `aisparser` binary (built from /repo) as a fresh process fed through a
//! pipe. Expected behaviour (`spec::cli`): split at '\n' as BufRead::split does, feed the segments
//! to THE LIBRARY ITSELF in-process (same sources) with one fresh parser; per line: Complete -> one
//! stdout record containing Debug of the decoded message, Err -> one stderr record, Incomplete ->
//! nothing; exit status 0. Using the library as per-line classifier makes C20 a statement about the
//! tool only.
use crate::json::{esc_bytes, hex, J};
use crate::par::{Local, Radix, Space};
use crate::spec::line::{sentence, Mk};
use crate::Tier;
use std::io::{Read, Write};
use std::process::{Command, Stdio};
use std::time::{Duration, Instant};

pub fn tool_path() -> String {
    std::env::var("AISPARSER_BIN").unwrap_or_else(|_| "/verif/target/cli/debug/aisparser".to_string())
}

pub fn line_kinds() -> Vec<(&'static str, Vec<u8>)> {
    let t1 = {
        let mut p = vec![b'0'; 28];
        p[0] = b'1';
        p
    };
    let mut with_tail = sentence(1, 1, b"", &t1, 0);
    with_tail.extend_from_slice(&[0xff, 0xfe, 0x80]);
    let mut with_cr = sentence(1, 1, b"", &t1, 0);
    with_cr.push(b'\r');
    let mut chan_hi = Mk::new(1, 1, b"", &t1, 0);
    chan_hi.chan = vec![0xC3];
    vec![
        ("valid type 1", sentence(1, 1, b"", &t1, 0)),
        ("valid type 21", b"!AIVDM,1,1,,A,E>kb9I99S@0`8@:9ah;0TahI7@@;V4=v:nv;h00003vP100,0*7A".to_vec()),
        ("fragment 1/2", sentence(2, 1, b"3", &t1[..13], 0)),
        ("fragment 2/2", sentence(2, 2, b"3", &t1[13..], 0)),
        ("bad checksum", b"!AIVDM,1,1,,A,E>kb9I99S@0`8@:9ah;0TahI7@@;V4=v:nv;h00003vP100,0*8D".to_vec()),
        ("garbage ascii", b"hello, world".to_vec()),
        ("empty line", b"".to_vec()),
        ("bytes >= 0x80 only", vec![0x80, 0xff, 0xc3, 0x28]),
        ("valid + bytes >= 0x80 after the checksum", with_tail),
        ("valid + CR", with_cr),
        ("well-formed but undecodable payload", sentence(1, 1, b"", b"0000", 0)),
        ("line containing NUL", b"!AIVDM,1,1,,A,\x00\x00,0*00".to_vec()),
        ("valid, channel byte >= 0x80", chan_hi.render()),
    ]
}

/// Run the tool on `input`; returns (exit code or None if killed/timeout, stdout, stderr).
pub fn run_tool(input: &[u8], timeout: Duration) -> Result<(Option<i32>, Vec<u8>, Vec<u8>), String> {
    let mut child = Command::new(tool_path())
        .stdin(Stdio::piped())
        .stdout(Stdio::piped())
        .stderr(Stdio::piped())
        .env("RUST_BACKTRACE", "0")
        .spawn()
        .map_err(|e| format!("cannot start {}: {}", tool_path(), e))?;
    let mut stdin = child.stdin.take().unwrap();
    let mut stdout = child.stdout.take().unwrap();
    let mut stderr = child.stderr.take().unwrap();
    let data = input.to_vec();
    // feed and drain concurrently so that no pipe can fill up
    let w = std::thread::spawn(move || {
        let _ = stdin.write_all(&data);
        drop(stdin);
    });
    let o = std::thread::spawn(move || {
        let mut b = Vec::new();
        let _ = stdout.read_to_end(&mut b);
        b
    });
    let e = std::thread::spawn(move || {
        let mut b = Vec::new();
        let _ = stderr.read_to_end(&mut b);
        b
    });
    let t0 = Instant::now();
    let status = loop {
        match child.try_wait() {
            Ok(Some(s)) => break Some(s),
            Ok(None) => {
                if t0.elapsed() > timeout {
                    let _ = child.kill();
                    let _ = child.wait();
                    break None;
                }
                std::thread::sleep(Duration::from_millis(1));
            }
            Err(e) => return Err(format!("wait failed: {}", e)),
        }
    };
    let _ = w.join();
    let out = o.join().unwrap_or_default();
    let err = e.join().unwrap_or_default();
    Ok((status.and_then(|s| s.code()), out, err))
}

/// `BufRead::split(b'\n')` semantics.
pub fn split_lines(input: &[u8]) -> Vec<&[u8]> {
    let mut v: Vec<&[u8]> = input.split(|&c| c == b'\n').collect();
    if v.last().map(|l| l.is_empty()).unwrap_or(false) {
        v.pop(); // a trailing '\n' (or empty input) does not create an empty line
    }
    v
}

#[derive(Debug)]
pub enum Expected {
    Stdout(String),
    Stderr,
    Nothing,
}

/// expectation: the library itself, in-process, one fresh parser, decoding on
pub fn expectation(input: &[u8]) -> Vec<Expected> {
    let mut parser = ais::AisParser::new();
    split_lines(input)
        .into_iter()
        .map(|line| match crate::par::guard(|| parser.parse(line, true)) {
            Ok(Ok(ais::AisFragments::Complete(s))) => Expected::Stdout(format!("{:?}", s.message)),
            Ok(Ok(ais::AisFragments::Incomplete(_))) => Expected::Nothing,
            #[allow(unreachable_patterns)]
            Ok(Ok(_)) => Expected::Nothing,
            // a library error OR a library panic: the line is rejected (C01 judges the panic)
            Ok(Err(_)) | Err(_) => Expected::Stderr,
        })
        .collect()
}

pub fn judge_stream(l: &mut Local, input: &[u8], what: &str) {
    let exp = expectation(input);
    let res = run_tool(input, Duration::from_secs(120));
    let (code, out, err) = match res {
        Ok(x) => x,
        Err(e) => {
            eprintln!("MACHINERY-ERROR {}", e);
            std::process::exit(2);
        }
    };
    let out_records: Vec<&[u8]> = split_lines(&out);
    let err_records: Vec<&[u8]> = split_lines(&err);
    let want_out: Vec<&String> = exp.iter().filter_map(|e| if let Expected::Stdout(s) = e { Some(s) } else { None }).collect();
    let want_err = exp.iter().filter(|e| matches!(e, Expected::Stderr)).count();
    let desc = |why: &str| {
        J::obj(vec![
            ("what", J::s(why)),
            ("stream", J::s(what)),
            ("stdin", J::s(esc_bytes(&input[..input.len().min(800)]))),
            ("stdin_hex", J::s(hex(&input[..input.len().min(800)]))),
            ("exit_code", match code { Some(c) => J::Int(c as i64), None => J::s("killed / timeout") }),
            ("stdout_records", J::u(out_records.len() as u64)),
            ("stderr_records", J::u(err_records.len() as u64)),
            ("expected_stdout_records", J::u(want_out.len() as u64)),
            ("expected_stderr_records", J::u(want_err as u64)),
            ("stderr_tail", J::s(esc_bytes(&err[err.len().saturating_sub(300)..]))),
        ])
    };
    l.class(match code {
        Some(0) => "exit0",
        Some(_) => "exit_nonzero",
        None => "timeout",
    });
    if !want_out.is_empty() {
        l.nontrivial();
    }
    l.outcome(crate::par::hash_bytes(code.unwrap_or(-1) as u64, &out));
    if code.is_none() {
        l.violation("cli.timeout", || desc("the tool did not finish"));
    } else if code != Some(0) {
        l.violation("cli.exit-status", || desc("the tool did not exit successfully"));
    } else if out_records.len() != want_out.len() {
        l.violation("cli.stdout-count", || desc("number of stdout records differs from the number of completed messages"));
    } else if err_records.len() != want_err {
        l.violation("cli.stderr-count", || desc("number of stderr records differs from the number of rejected lines"));
    } else {
        for (rec, want) in out_records.iter().zip(want_out.iter()) {
            let r = String::from_utf8_lossy(rec);
            if !r.contains(want.as_str()) {
                l.violation("cli.stdout-content", || desc(&format!("stdout record {:?} does not contain the decoded message {}", r, want)));
                break;
            }
        }
    }
    l.sample(|| desc("sample"));
}

pub fn streams(d: u32) -> Space {
    let kinds = line_kinds();
    let a = kinds.len() as u64;
    let mut starts = Vec::new();
    let mut total = 0u64;
    for len in 0..=d {
        starts.push(total);
        total += a.pow(len);
    }
    Space::new(
        &format!("CLI-STREAMS({})", d),
        &format!("every sequence of 0..={} lines over {} line kinds x final newline {{present, absent}}; one fresh process each", d, a),
        total * 2,
        move |i, l| {
            let final_nl = i % 2 == 0;
            let k = i / 2;
            let li = match starts.binary_search(&k) {
                Ok(x) => x,
                Err(x) => x - 1,
            };
            let mut r = Radix(k - starts[li]);
            let mut input = Vec::new();
            let mut names = Vec::new();
            for j in 0..li {
                let (name, line) = &kinds[r.take(a) as usize];
                if j > 0 {
                    input.push(b'\n');
                }
                input.extend_from_slice(line);
                names.push(*name);
            }
            if li > 0 && final_nl {
                input.push(b'\n');
            }
            if li == 0 && !final_nl {
                l.skip();
                return;
            }
            judge_stream(l, &input, &names.join(" | "));
        },
    )
}

/// A few long streams (every line kind cycled), one of 200 000 lines in the thorough tier.
pub fn long_streams(tier: Tier) -> Space {
    let sizes: Vec<usize> = if tier == Tier::Thorough { vec![1000, 20_000, 200_000] } else { vec![1000, 20_000] };
    Space::new(
        "CLI-LONG",
        &format!("streams of {:?} lines cycling through every line kind", sizes),
        sizes.len() as u64,
        move |i, l| {
            let kinds = line_kinds();
            let n = sizes[i as usize];
            let mut input = Vec::new();
            for j in 0..n {
                input.extend_from_slice(&kinds[(j * 7 + j / 13) % kinds.len()].1);
                input.push(b'\n');
            }
            judge_stream(l, &input, &format!("{} lines", n));
        },
    )
}

/// CLI-BYTES(L): every byte string of length <= L over {LF, CR, '!', 'A', ',', 0x80, NUL}: arbitrary
/// line STRUCTURE (consecutive newlines, CR only, no final newline, ...).
pub fn byte_streams(maxlen: u32) -> Space {
    let alpha: [u8; 7] = [b'\n', b'\r', b'!', b'A', b',', 0x80, 0x00];
    let a = alpha.len() as u64;
    let mut starts = Vec::new();
    let mut total = 0u64;
    for len in 0..=maxlen {
        starts.push(total);
        total += a.pow(len);
    }
    Space::new(
        &format!("CLI-BYTES({})", maxlen),
        &format!("every byte string of length 0..={} over {{LF, CR, '!', 'A', ',', 0x80, NUL}} as the whole standard input", maxlen),
        total,
        move |i, l| {
            let li = match starts.binary_search(&i) {
                Ok(x) => x,
                Err(x) => x - 1,
            };
            let mut r = Radix(i - starts[li]);
            let input: Vec<u8> = (0..li).map(|_| alpha[r.take(a) as usize]).collect();
            judge_stream(l, &input, "raw bytes");
        },
    )
}

/// Very long single lines (the tool must not depend on a line length limit).
pub fn long_lines() -> Space {
    Space::new(
        "CLI-LONG-LINE",
        "one line of 10^3, 10^5, 10^6 bytes (garbage / a sentence with an oversized payload), followed by a valid sentence",
        6,
        move |i, l| {
            let n = [1000usize, 100_000, 1_000_000][(i / 2) as usize];
            let mut input = if i % 2 == 0 {
                vec![b'x'; n]
            } else {
                sentence(1, 1, b"", &vec![b'1'; n], 0)
            };
            input.push(b'\n');
            input.extend_from_slice(&line_kinds()[1].1);
            input.push(b'\n');
            judge_stream(l, &input, &format!("one line of {} bytes then a valid sentence", n));
        },
    )
}

pub fn c20(tier: Tier) -> Vec<Space> {
    vec![
        streams(if tier == Tier::Quick { 3 } else { 4 }),
        byte_streams(if tier == Tier::Quick { 4 } else { 5 }),
        long_streams(tier),
        long_lines(),
    ]
}
