//! C12: stand-alone ship type conversions (`ShipType::parse`, `From<u8>`, `u8::from`).
use crate::canon::{rev_ship, Val};
use crate::json::J;
use crate::par::{guard, Space};
use crate::spec::msg::e_ship;
use ais::messages::types::ShipType;

pub fn ship_type_conversions() -> Space {
    Space::new(
        "SHIPTYPE-CONV",
        "all 256 codes: ShipType::parse(c) vs. the ITU table; for 1..=99 u8::from(ShipType::from(c)) == c",
        256,
        |i, l| {
            let c = i as u8;
            let want = e_ship(c as u64);
            let got = guard(|| ShipType::parse(c));
            let d = |obs: String| {
                J::obj(vec![
                    ("code", J::u(c as u64)),
                    ("expected", J::s(want.show())),
                    ("observed", J::s(obs)),
                ])
            };
            match got {
                Err(p) => l.violation("shiptype.parse.panic", || d(p)),
                Ok(g) => {
                    let gv = match &g {
                        None => Val::N,
                        Some(s) => Val::U(rev_ship(s)),
                    };
                    l.outcome(gv.digest());
                    if gv != want {
                        l.violation("shiptype.parse.value", || d(gv.show()));
                    }
                    if g.is_some() {
                        l.nontrivial();
                    }
                }
            }
            if (1..=99).contains(&c) {
                match guard(|| u8::from(ShipType::from(c))) {
                    Err(p) => l.violation("shiptype.roundtrip.panic", || d(p)),
                    Ok(back) => {
                        if back != c {
                            l.violation("shiptype.roundtrip", || d(format!("u8::from(ShipType::from({})) = {}", c, back)));
                        }
                    }
                }
            }
            l.sample(|| d("-".into()));
        },
    )
}
