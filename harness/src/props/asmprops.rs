//! Reassembly properties (C05, C06, C17 and the history-dependent parts of C01, C02, C18):
//! alphabets, explicit-state exploration, and the index-addressable history spaces.
use crate::canon::Out;
use crate::explore::{self, judge_step, ExploreCfg, Findings, Letter};
use crate::json::{esc_bytes, hex, J};
use crate::par::{Local, Radix, Space};
use crate::props::msgspaces::variants;
use crate::spec::asm::{self, history_predicate, HEntry, Kind, MState};
use crate::spec::line::{recognise, sentence, Mk};
use crate::spec::unarmor::armor_bits;
use crate::subj::{self, Parser};
use crate::Tier;

pub const IDS: [&[u8]; 5] = [b"", b"0", b"5", b"05", b"10"];

fn id_code(id: &[u8]) -> &'static str {
    match id {
        b"" => "N",
        b"0" => "a",
        b"5" => "b",
        b"05" => "c",
        b"10" => "d",
        b"255" => "f",
        _ => "e",
    }
}

fn id_name(id: &[u8]) -> String {
    if id.is_empty() {
        "-".into()
    } else {
        String::from_utf8_lossy(id).into_owned()
    }
}

/// Fragment letter with a unique payload token (legal armoring characters only).
pub fn frag(n: u32, k: u32, id: &[u8], decode: bool) -> Letter {
    let token = format!("{}{}{}", n % 10, k % 10, id_code(id));
    Letter::new(
        &format!("F({},{},{}){}", n, k, id_name(id), if decode { "+d" } else { "" }),
        sentence(n, k, id, token.as_bytes(), 0),
        decode,
    )
}

/// A 168-bit type-1 message, armored: 28 characters.
pub fn type1_payload() -> Vec<u8> {
    let mut p = vec![b'0'; 28];
    p[0] = b'1';
    p
}

pub fn valid_alphabet() -> Vec<Letter> {
    valid_alphabet_n(5, &IDS)
}

/// thorough tier: group sizes 2..=6 and six sequence ids
pub fn valid_alphabet_wide() -> Vec<Letter> {
    valid_alphabet_n(6, &[b"", b"0", b"5", b"05", b"10", b"255"])
}

fn valid_alphabet_n(max_n: u32, ids: &[&[u8]]) -> Vec<Letter> {
    let mut v = Vec::new();
    for n in 2..=max_n {
        for k in 1..=n {
            for &id in ids {
                let mut l = frag(n, k, id, false);
                if n <= 3 && (id.is_empty() || id == b"5") {
                    l = l.core();
                }
                v.push(l);
            }
        }
    }
    let t1 = type1_payload();
    for id in [&b""[..], b"5"] {
        // a group whose concatenation decodes, decoding requested
        v.push(Letter::new(&format!("Fd(2,1,{})+d", id_name(id)), sentence(2, 1, id, &t1[..13], 0), true));
        v.push(Letter::new(&format!("Fd(2,2,{})+d", id_name(id)), sentence(2, 2, id, &t1[13..], 0), true));
    }
    // final fragments with decoding requested whose group does not decode
    v.push(frag(2, 2, b"", true));
    v.push(frag(3, 3, b"5", true));
    // unfragmented sentences
    v.push(Letter::new("U(decodable)", sentence(1, 1, b"", &t1, 0), false).core());
    v.push(Letter::new("U(decodable)+d", sentence(1, 1, b"", &t1, 0), true));
    v.push(Letter::new("U(undecodable)", sentence(1, 1, b"", b"0000", 0), false));
    v.push(Letter::new("U(undecodable)+d", sentence(1, 1, b"", b"0000", 0), true));
    v.push(Letter::new("U(bad armoring)+d", sentence(1, 1, b"7", b"1X00", 0), true));
    v.push(Letter::new("U(id 5)", sentence(1, 1, b"5", &t1, 0), false));
    // rejected lines
    let mut bad1 = Mk::new(2, 1, b"5", b"21b", 0);
    bad1.chan = b"B".to_vec();
    v.push(Letter::new("badsum F(2,1,5)", bad1.render_with(b"*00"), false));
    let bad2 = Mk::new(2, 2, b"5", b"22b", 0);
    let wrong = format!("*{:02X}", bad2.xor() ^ 0x10);
    v.push(Letter::new("badsum F(2,2,5)", bad2.render_with(wrong.as_bytes()), false).core());
    v.push(Letter::new("garbage", b"hello world".to_vec(), false));
    v.push(Letter::new("empty", b"".to_vec(), true));
    v.push(Letter::new("truncated", b"!AIVDM,2,1".to_vec(), false));
    // 200-character fragments (validly numbered): two of them exceed the no-allocator buffer
    for k in 1..=3u32 {
        let mut big = vec![b'0'; 200];
        big[0] = b'0' + k as u8;
        v.push(Letter::new(&format!("BIG(3,{},5)", k), sentence(3, k, b"5", &big, 0), false));
    }
    let big = vec![b'7'; 200];
    v.push(Letter::new("BIG(2,2,5)", sentence(2, 2, b"5", &big, 0), false));
    // fragments whose payload is not armoring (validly numbered): unarmoring the delivered group fails
    v.push(Letter::new("F~(2,1,-)+d", sentence(2, 1, b"", b"~~", 0), true));
    v.push(Letter::new("F~(2,2,-)+d", sentence(2, 2, b"", b"~~", 0), true));
    v.push(Letter::new("F~(2,2,5)+d", sentence(2, 2, b"5", b"1~", 0), true));
    v
}

pub fn ext_alphabet() -> Vec<Letter> {
    ext_alphabet_from(valid_alphabet())
}

pub fn ext_alphabet_wide() -> Vec<Letter> {
    ext_alphabet_from(valid_alphabet_wide())
}

fn ext_alphabet_from(mut v: Vec<Letter>) -> Vec<Letter> {
    let inval: [(u32, u32); 11] = [
        (0, 0),
        (0, 1),
        (1, 0),
        (1, 2),
        (2, 0),
        (2, 3),
        (3, 0),
        (2, 255),
        (255, 1),
        (255, 254),
        (255, 255),
    ];
    for (n, k) in inval {
        for id in [&b""[..], b"5"] {
            let token = format!("{}x{}{}", n % 10, k % 10, id_code(id));
            v.push(Letter::new(
                &format!("X({},{},{})", n, k, id_name(id)),
                sentence(n, k, id, token.as_bytes(), 0),
                false,
            ));
        }
    }
    v.push(Letter::new("BIG385", sentence(1, 1, b"", &vec![b'1'; 385], 0), false));
    v
}

pub fn run_explorer(prop: &str, tier: Tier, ext: bool) -> J {
    let wide = tier == Tier::Thorough;
    let letters = match (ext, wide) {
        (true, false) => ext_alphabet(),
        (false, false) => valid_alphabet(),
        (true, true) => ext_alphabet_wide(),
        (false, true) => valid_alphabet_wide(),
    };
    let cfg = ExploreCfg {
        name: if ext { "ASM-CLOSURE(ext)".into() } else { "ASM-CLOSURE(valid)".into() },
        letters: letters.clone(),
        max_states: if tier == Tier::Quick { 20_000 } else { 200_000 },
        max_depth: if tier == Tier::Quick { 12 } else { 16 },
        max_secs: if tier == Tier::Quick { 40 } else { 600 },
    };
    let r1 = explore::explore(&cfg);
    // determinism: the exploration is run twice and must agree (skipped when a budget stopped it:
    // a time-capped search is not reproducible step for step)
    let budget = r1.stopped_by == "time budget" || r1.stopped_by == "state cap";
    let same = if budget {
        true
    } else {
        let r2 = explore::explore(&cfg);
        r1.states == r2.states && r1.transitions == r2.transitions && r1.hist == r2.hist
    };
    let mut j = r1.to_json(&letters, prop);
    j.push("second_run_identical", J::Bool(same));
    j.push("evaluations", J::u(r1.transitions));
    j.push("nontrivial", J::u(r1.accepted));
    if !same {
        eprintln!("MACHINERY-ERROR: two runs of the explorer disagree (nondeterminism)");
        std::process::exit(2);
    }
    eprintln!(
        "[{} {}] {:<34} letters={} states={} transitions={} depth={} closed={} viol_sigs={} {:.2}s",
        prop,
        subj::BUILD,
        r1.name,
        r1.letters,
        r1.states,
        r1.transitions,
        r1.max_depth,
        r1.closed,
        r1.violations.iter().filter(|v| v.props.contains(&prop)).count(),
        r1.wall_s
    );
    j
}

// ---------------------------------------------------------------------------------------------
// helper: run a fixed history against the monitor (step oracle) inside an index-addressable space

const LONG_PREFIX: usize = 2_000;

pub fn run_with_monitor(l: &mut Local, prop: &'static str, lines: &[(Vec<u8>, bool)]) {
    let mut p = Parser::new();
    let mut m = MState::Closed;
    // both flavours of the monitor run side by side: where they disagree a documented capacity is
    // exceeded and every build records the same token (C18)
    let (mut m_alloc, mut m_noalloc) = (MState::Closed, MState::Closed);
    let mut f: Findings = Vec::new();
    let mut delivered = false;
    for (i, (line, decode)) in lines.iter().enumerate() {
        let (exp, m1) = asm::step(&m, line, *decode, subj::NOALLOC);
        // the parser's Debug rendering is only needed where the no-trace clause applies
        // ... and only within the first LONG_PREFIX lines of a history: a representation-only difference
        // is confirmed behaviourally by replaying the whole prefix for every probe continuation, which
        // is quadratic in the history length. Deeper into a long history (ASM-SOAK-LONG, ASM-WRAP) the
        // verdict rests on the monitor alone — on results, which is what C17 speaks about.
        let need_state = i < LONG_PREFIX
            && !matches!(exp, asm::Expect::Incomplete | asm::Expect::Deliver { .. } | asm::Expect::RejectCapacity);
        let d0 = if need_state { p.state() } else { String::new() };
        let (ea, ma) = asm::step(&m_alloc, line, *decode, false);
        let (en, mn) = asm::step(&m_noalloc, line, *decode, true);
        let capacity_zone = ea != en || ma != mn;
        m_alloc = ma;
        m_noalloc = mn;
        let out = p.parse(line, *decode);
        let d1 = if need_state { p.state() } else { String::new() };
        l.outcome(if capacity_zone { crate::par::CAP_TOKEN } else { out.digest() });
        if i + 1 == lines.len() {
            l.class(out.class());
        }
        if matches!(exp, asm::Expect::Deliver { .. }) && matches!(out, Out::Complete(_)) {
            delivered = true;
        }
        f.clear();
        judge_step(&exp, line, *decode, &out, &d0, &d1, &mut f);
        explore::confirm_traces(&mut f, || explore::states_differ(&lines[..i], &lines[..=i], &explore::probe_set(&m)));
        let mut stop = false;
        for (props, sig, why) in f.drain(..) {
            // after a finding the monitor and the code may have diverged: stop judging this history —
            // except for a trace finding that belongs to another property (the monitor is still right
            // about the group, and this property's own clauses further down must still be judged)
            if props.contains(&prop) || !sig.starts_with("asm.trace-") {
                stop = true;
            }
            if props.contains(&prop) {
                l.violation(&sig, || {
                    J::obj(vec![
                        ("what", J::s(&why)),
                        ("step", J::u(i as u64)),
                        ("expectation", J::s(format!("{:?}", exp))),
                        ("outcome", J::s(out.show())),
                        (
                            "history",
                            J::Arr(lines[..=i].iter().map(|(x, _)| J::s(esc_bytes(&x[..x.len().min(100)]))).collect()),
                        ),
                        ("build", J::s(subj::BUILD)),
                    ])
                });
            }
        }
        if stop {
            break;
        }
        m = m1;
    }
    if delivered {
        l.nontrivial();
    }
    l.sample(|| {
        J::obj(vec![(
            "history",
            J::Arr(lines.iter().map(|(x, _)| J::s(esc_bytes(&x[..x.len().min(100)]))).collect()),
        )])
    });
}

/// ASM-CHAIN: the directed deep traces BFS cannot reach cheaply — a 255-fragment group cut at
/// c ∈ {1,127,128,253,254,255} followed by every k' ∈ {0,1,2,127,128,129,254,255}; and groups
/// crossing the no-allocator capacity at every fragment index 2..=6.
pub fn chain(prop: &'static str) -> Space {
    let cuts = [1u32, 127, 128, 253, 254, 255];
    let nexts = [0u32, 1, 2, 127, 128, 129, 254, 255];
    let n_a = (cuts.len() * nexts.len() * 2 * 2) as u64;
    let n_b = 5 * 2 * 2;
    Space::new(
        "ASM-CHAIN",
        "255-fragment group cut at {1,127,128,253,254,255} x next k in {0,1,2,127,128,129,254,255} x id {none,5} x decode; groups crossing 384 bytes at fragment 2..=6 x id x decode",
        n_a + n_b,
        move |i, l| {
            let mut lines: Vec<(Vec<u8>, bool)> = Vec::new();
            if i < n_a {
                let mut r = Radix(i);
                let cut = cuts[r.take(cuts.len() as u64) as usize];
                let nx = nexts[r.take(nexts.len() as u64) as usize];
                let id: &[u8] = if r.take(2) == 0 { b"" } else { b"5" };
                let dec = r.take(2) == 1;
                for k in 1..=cut {
                    // one-character tokens: the whole 255-fragment group fits the no-allocator buffer
                    let tok = [crate::spec::unarmor::armor_char((k % 64) as u8)];
                    lines.push((sentence(255, k, id, &tok, 0), dec));
                }
                lines.push((sentence(255, nx, id, b"ww", 0), dec));
                // and one more in-sequence attempt afterwards
                lines.push((sentence(255, nx.wrapping_add(1) % 256, id, b"vv", 0), dec));
            } else {
                let mut r = Radix(i - n_a);
                let j = 2 + r.take(5) as usize; // overflow at fragment j
                let id: &[u8] = if r.take(2) == 0 { b"" } else { b"5" };
                let dec = r.take(2) == 1;
                // fragments 1..j-1 fit together (<= 380 bytes), fragment j crosses 384
                let size = 380 / (j - 1);
                let n = (j + 2) as u32;
                for k in 1..=n {
                    let len = if (k as usize) < j {
                        size
                    } else if (k as usize) == j {
                        385 - size * (j - 1)
                    } else {
                        3
                    };
                    let mut pl = vec![b'0'; len];
                    pl[0] = b'0' + (k % 10) as u8;
                    lines.push((sentence(n, k, id, &pl, 0), dec));
                }
            }
            run_with_monitor(l, prop, &lines);
        },
    )
}

/// ASM-GROUPS: group sizes and sequence ids OUTSIDE the small alphabets: for n in {2..=12, 16, 100,
/// 128, 200, 255} and 10 ids (absent, 0, 9, 10, 11, 99, 100, 128, 255, "007"): the in-order group, and
/// every single deviation of it at every position j — duplicate of fragment j-1, fragment j skipped,
/// wrong id at j, bad checksum at j, an unfragmented sentence before j, fragment j of a larger group —
/// all judged step by step by the monitor.
pub fn groups(prop: &'static str) -> Space {
    let ns: Vec<u32> = vec![2, 3, 4, 5, 6, 7, 8, 9, 10, 11, 12, 16, 100, 128, 200, 255];
    let ids: Vec<&'static [u8]> = vec![b"", b"0", b"9", b"10", b"11", b"99", b"100", b"128", b"255", b"007"];
    // index space: (n, position j in 0..=n, deviation kind 0..7, id, decode)   (j = 0: no deviation)
    // deviation positions: every position for n <= 16; around the decimal / binary boundaries and
    // both ends for the large groups
    let positions: Vec<Vec<u32>> = ns
        .iter()
        .map(|&n| {
            if n <= 16 {
                (1..=n).collect()
            } else {
                let mut v: Vec<u32> = [1, 2, 9, 10, 11, 99, 100, 101, 127, 128, 129, n - 1, n].into_iter().filter(|&j| j <= n).collect();
                v.sort();
                v.dedup();
                v
            }
        })
        .collect();
    let mut starts = Vec::new();
    let mut total = 0u64;
    for pv in &positions {
        starts.push(total);
        total += (1 + pv.len() as u64 * 6) * ids.len() as u64 * 2;
    }
    Space::new(
        "ASM-GROUPS",
        "group sizes {2..12,16,100,128,200,255} x 10 sequence ids (absent,0,9,10,11,99,100,128,255,007) x (in-order group + every single deviation at every position (large groups: at 1,2,9-11,99-101,127-129,n-1,n): duplicate, skip, wrong id, bad checksum, interposed unfragmented sentence, fragment of a larger group) x decode",
        total,
        move |i, l| {
            let ni = match starts.binary_search(&i) {
                Ok(x) => x,
                Err(x) => x - 1,
            };
            let n = ns[ni];
            let mut r = Radix(i - starts[ni]);
            let dec = r.take(2) == 1;
            let id = ids[r.take(ids.len() as u64) as usize];
            let dev = r.0; // 0 = none; else 1 + (j-1)*6 + kind
            let (j, kind) = if dev == 0 { (0u32, 0u64) } else { (positions[ni][((dev - 1) / 6) as usize], (dev - 1) % 6) };
            let other: &[u8] = if id == b"9" { b"8" } else { b"9" };
            let tok = |k: u32| -> Vec<u8> {
                vec![crate::spec::unarmor::armor_char((k % 64) as u8), crate::spec::unarmor::armor_char(((k / 64) % 64) as u8)]
            };
            let mut lines: Vec<(Vec<u8>, bool)> = Vec::new();
            for k in 1..=n {
                if k == j {
                    match kind {
                        0 => {
                            // duplicate of the previous fragment (or of fragment 1 itself)
                            let d = if k > 1 { k - 1 } else { 1 };
                            lines.push((sentence(n, d, id, &tok(d), 0), dec));
                        }
                        1 => continue, // fragment j lost
                        2 => {
                            lines.push((sentence(n, k, other, &tok(k), 0), dec));
                            continue;
                        }
                        3 => {
                            let m = Mk::new(n, k, id, &tok(k), 0);
                            let wrong = format!("*{:02X}", m.xor() ^ 0x21);
                            lines.push((m.render_with(wrong.as_bytes()), dec));
                        }
                        4 => lines.push((sentence(1, 1, id, &type1_payload(), 0), dec)),
                        _ => {
                            // the same fragment number, declared as part of a larger group: still a
                            // direct continuation (the count is not part of the sequencing rule)
                            lines.push((sentence((n + 1).min(255), k, id, &tok(k), 0), dec));
                            continue;
                        }
                    }
                }
                lines.push((sentence(n, k, id, &tok(k), 0), dec));
            }
            run_with_monitor(l, prop, &lines);
        },
    )
}

/// ASM-IDPAIRS: ALL 257 x 257 ordered pairs of sequence ids (absent, 0..=255): a group opened with
/// id a and continued with id b (as fragment 2 of 2, and as fragment 3 of 3 after a correct
/// fragment 2) is accepted iff a = b. Judged by the monitor.
pub fn id_pairs(prop: &'static str) -> Space {
    Space::new(
        "ASM-IDPAIRS",
        "all 257^2 ordered pairs of sequence ids (absent, 0..=255) x {mismatch at fragment 2 of 2, at fragment 3 of 3}",
        257 * 257 * 2,
        move |i, l| {
            let mut r = Radix(i);
            let three = r.take(2) == 1;
            let a = r.take(257);
            let b = r.0;
            let ids = |x: u64| -> Vec<u8> {
                if x == 0 {
                    vec![]
                } else {
                    (x - 1).to_string().into_bytes()
                }
            };
            let (ia, ib) = (ids(a), ids(b));
            let lines: Vec<(Vec<u8>, bool)> = if three {
                vec![
                    (sentence(3, 1, &ia, b"31x", 0), false),
                    (sentence(3, 2, &ia, b"32x", 0), false),
                    (sentence(3, 3, &ib, b"33x", 0), false),
                ]
            } else {
                vec![(sentence(2, 1, &ia, b"21x", 0), false), (sentence(2, 2, &ib, b"22x", 0), false)]
            };
            run_with_monitor(l, prop, &lines);
        },
    )
}

/// ASM-SOAK: long cyclic scripts (600 lines) mixing complete groups, abandoned groups, unfragmented
/// sentences and every kind of rejected line, judged step by step by the monitor: behaviour must not
/// depend on how many lines, groups or errors the parser has already seen.
pub fn soak(prop: &'static str) -> Space {
    Space::new(
        "ASM-SOAK",
        "8 cyclic scripts x 600 lines (complete / abandoned groups, unfragmented sentences, checksum / grammar / sequencing / decode errors) x decode phase; plus 6 burst scripts: 300 consecutive rejected lines (4 kinds rotating, or one kind) / unfragmented sentences between the fragments of an open group",
        8 * 2 + 6 * 2,
        move |i, l| {
            let script = i / 2;
            let phase = i % 2 == 1;
            let t1 = type1_payload();
            let mut lines: Vec<(Vec<u8>, bool)> = Vec::new();
            if script >= 8 {
                // burst scripts
                let kind = script - 8;
                let id: &[u8] = if phase { b"6" } else { b"" };
                let other: &[u8] = if phase { b"7" } else { b"8" };
                lines.push((sentence(3, 1, id, b"b1", 0), false));
                for j in 0..300u32 {
                    let which = if kind == 0 { j % 4 } else { (kind - 1) as u32 };
                    let line = match which {
                        0 => {
                            let m = Mk::new(3, 2, id, b"b2", 0);
                            let wrong = format!("*{:02X}", m.xor() ^ 0x08);
                            m.render_with(wrong.as_bytes())
                        }
                        1 => b"!AIVDM,garbage,,".to_vec(),
                        2 => sentence(3, 3, other, b"zz", 0),
                        3 => sentence(2, 2, id, b"", 0), // empty payload: malformed
                        _ => sentence(1, 1, b"", &t1, 0),
                    };
                    lines.push((line, kind == 5 && j % 2 == 0));
                }
                lines.push((sentence(3, 2, id, b"b2", 0), false));
                lines.push((sentence(3, 3, id, b"b3", 0), false));
                run_with_monitor(l, prop, &lines);
                return;
            }
            cyclic_script(script, phase, 600, &t1, &mut lines);
            run_with_monitor(l, prop, &lines);
        },
    )
}

/// The cyclic script of ASM-SOAK / ASM-SOAK-LONG number `script` (0..8), `len` lines long.
fn cyclic_script(script: u64, phase: bool, len: usize, t1: &[u8], lines: &mut Vec<(Vec<u8>, bool)>) {
    let mut g = 0u32;
    while lines.len() < len {
        g += 1;
        let id_s = format!("{}", g % 10);
        let id: &[u8] = if script % 2 == 0 { b"" } else { id_s.as_bytes() };
        let dec = phase ^ (g % 3 == 0);
        let n = 2 + (g + script as u32) % 4;
        match (g + script as u32) % 8 {
            0 | 1 | 2 => {
                // complete group
                for k in 1..=n {
                    lines.push((sentence(n, k, id, format!("g{}k{}", g % 10, k).replace('g', "7").replace('k', "8").as_bytes(), 0), dec));
                }
            }
            3 => {
                // abandoned group
                lines.push((sentence(n + 1, 1, id, b"abc", 0), dec));
                lines.push((sentence(n + 1, 2, id, b"abd", 0), dec));
            }
            4 => lines.push((sentence(1, 1, b"", &t1, 0), dec)),
            5 => {
                let m = Mk::new(2, 2, id, b"zz1", 0);
                let wrong = format!("*{:02X}", m.xor() ^ 0x40);
                lines.push((m.render_with(wrong.as_bytes()), dec));
                lines.push((b"!AIVDM,nonsense".to_vec(), dec));
            }
            6 => {
                // orphan continuation, then a decodable 2-fragment group with decoding on
                lines.push((sentence(3, 3, id, b"orf", 0), dec));
                lines.push((sentence(2, 1, id, &t1[..13], 0), true));
                lines.push((sentence(2, 2, id, &t1[13..], 0), true));
            }
            _ => {
                // undecodable group with decoding on (decode failure closes the group)
                lines.push((sentence(2, 1, id, b"000", 0), true));
                lines.push((sentence(2, 2, id, b"000", 0), true));
                lines.push((sentence(3, 3, id, b"001", 0), false));
            }
        }
    }
}

/// ASM-SOAK-LONG: the eight cyclic scripts of ASM-SOAK continued for `len` lines, so that the number
/// of lines, of groups (about len / 2.3), of deliveries and of rejected lines each cross 2^8 and — for
/// len > 160 000 — 2^16: any counter, generation number, periodic clean-up or wrap-around of such a
/// width that influences results shows up as a step the monitor disagrees with.
pub fn soak_long(prop: &'static str, len: usize) -> Space {
    Space::new(
        "ASM-SOAK-LONG",
        "the 8 cyclic scripts of ASM-SOAK x decode phase continued for 200 000 lines (thorough: 1 000 000): line / group / delivery / error counts cross 2^8 and 2^16; every step judged by the monitor",
        8 * 2,
        move |i, l| {
            let t1 = type1_payload();
            let mut lines: Vec<(Vec<u8>, bool)> = Vec::with_capacity(len + 4);
            cyclic_script(i / 2, i % 2 == 1, len, &t1, &mut lines);
            run_with_monitor(l, prop, &lines);
        },
    )
}

/// ASM-WRAP: a counter, generation number or periodic clean-up inside the parser can only matter at
/// the moment it wraps or fires. For each boundary B in {2^8, 2^16} and each kind of filler (so that
/// the number of lines, of accepted sentences, of decoded messages, of checksum / grammar / sequencing
/// errors, of groups or of deliveries is what reaches B), a scenario — a 3-fragment group with optional
/// noise between its fragments, then a 2-fragment group and an unfragmented sentence — is placed so
/// that EACH of its lines in turn is the (B-1)-th, B-th, (B+1)-th ... event. Judged step by step by
/// the monitor: no result may depend on how much the parser has already seen.
pub fn wrap(prop: &'static str, thorough: bool) -> Space {
    wrap_bounds(prop, if thorough { &[256, 65_536, 131_072, 1 << 20] } else { &[256, 65_536] })
}

/// C01 / C18 run the 2^16 boundary in the thorough tier only (their quick tiers are the longest;
/// ASM-SOAK-LONG already takes their line, group and delivery counts across 2^16).
pub fn wrap_light(prop: &'static str, thorough: bool) -> Space {
    wrap_bounds(prop, if thorough { &[256, 65_536, 131_072, 1 << 20] } else { &[256] })
}

fn wrap_bounds(prop: &'static str, bounds: &'static [u64]) -> Space {
    const FILL: u64 = 7; // filler kinds
    const OFFS: u64 = 12; // B-9 ..= B+2 filler units before the scenario (the scenario has up to 9 lines)
    // (boundary, noise after fragment 1, noise after fragment 2): all 16 noise pairs at 2^8, the four
    // pairs with the same noise in both gaps at the large boundaries (cost is proportional to B)
    let mut combos: Vec<(u64, u64, u64)> = Vec::new();
    for &b in bounds {
        for n1 in 0..4u64 {
            for n2 in 0..4u64 {
                if b <= 256 || n1 == n2 {
                    combos.push((b, n1, n2));
                }
            }
        }
    }
    let size = combos.len() as u64 * FILL * OFFS * 2;
    Space::new(
        "ASM-WRAP",
        "boundaries {2^8, 2^16 (thorough: also 2^17, 2^20)} x 7 filler kinds (unfragmented, unfragmented decoded, bad checksum, garbage, orphan continuation, complete 2-groups, abandoned groups) x filler count B-9..=B+2 x noise between fragments 1|2 and 2|3 in {none, unfragmented, bad checksum, orphan of another id} (all 16 pairs at 2^8, the 4 equal pairs above) x id {none, 4}: 3-fragment group + 2-fragment group + unfragmented sentence straddling the boundary at every alignment",
        size,
        move |i, l| {
            let mut r = Radix(i);
            let (b, n1, n2) = combos[r.take(combos.len() as u64) as usize];
            let fill = r.take(FILL);
            let off = r.take(OFFS);
            let id: &[u8] = if r.take(2) == 0 { b"" } else { b"4" };
            let t1 = type1_payload();
            let units = b + off - 9;
            let mut lines: Vec<(Vec<u8>, bool)> = Vec::with_capacity(units as usize * 2 + 12);
            let bad = {
                let m = Mk::new(2, 2, id, b"w2", 0);
                let wrong = format!("*{:02X}", m.xor() ^ 0x10);
                m.render_with(wrong.as_bytes())
            };
            for u in 0..units {
                match fill {
                    0 => lines.push((sentence(1, 1, b"", &t1, 0), false)),
                    1 => lines.push((sentence(1, 1, b"", &t1, 0), true)),
                    2 => lines.push((bad.clone(), false)),
                    3 => lines.push((b"!AIVDM,x".to_vec(), false)),
                    4 => lines.push((sentence(2, 2, b"9", b"orf", 0), false)),
                    5 => {
                        let tok = [b'1', crate::spec::unarmor::armor_char((u % 64) as u8)];
                        lines.push((sentence(2, 1, id, &tok, 0), false));
                        lines.push((sentence(2, 2, id, &tok, 0), false));
                    }
                    _ => lines.push((sentence(3, 1, id, b"ab1", 0), false)),
                }
            }
            let noise = |which: u64, lines: &mut Vec<(Vec<u8>, bool)>| match which {
                1 => lines.push((sentence(1, 1, b"", &t1, 0), false)),
                2 => lines.push((bad.clone(), false)),
                3 => lines.push((sentence(3, 2, b"8", b"oth", 0), false)),
                _ => {}
            };
            lines.push((sentence(3, 1, id, b"s1a", 0), false));
            noise(n1, &mut lines);
            lines.push((sentence(3, 2, id, b"s2b", 0), false));
            noise(n2, &mut lines);
            lines.push((sentence(3, 3, id, b"s3c", 0), false));
            lines.push((sentence(2, 1, id, &t1[..13], 0), true));
            lines.push((sentence(2, 2, id, &t1[13..], 0), true));
            lines.push((sentence(1, 1, b"", &t1, 0), true));
            lines.push((sentence(3, 2, id, b"late", 0), false));
            run_with_monitor(l, prop, &lines);
            // --- deletion metamorphism (C17), as in ASM-HIST: removing the rejected lines and the
            // unfragmented sentences — here all of them at once, which follows from removing them one
            // by one — must leave the result of every other line unchanged.
            if prop == "C17" {
                let mut p = Parser::new();
                let outs: Vec<Out> = lines.iter().map(|(x, d)| p.parse(x, *d)).collect();
                let keep: Vec<usize> = (0..lines.len())
                    .filter(|&q| {
                        let unfrag = lines[q].0.starts_with(b"!AIVDM,1,1,");
                        let late = q + 1 == lines.len();
                        let filler_or_noise = unfrag || late || lines[q].0 == bad || lines[q].0.starts_with(b"!AIVDM,x") || {
                            let x = &lines[q].0;
                            x.starts_with(b"!AIVDM,2,2,9,") || x.starts_with(b"!AIVDM,3,2,8,")
                        };
                        !(filler_or_noise && (unfrag || matches!(outs[q], Out::Err(_))))
                    })
                    .collect();
                let mut p2 = Parser::new();
                for &q in &keep {
                    let o2 = p2.parse(&lines[q].0, lines[q].1);
                    if o2.digest() != outs[q].digest() {
                        l.violation("hist.removal-changes-results", || {
                            J::obj(vec![
                                ("what", J::s("the result of a line differs when the rejected lines and unfragmented sentences before it are removed from the history")),
                                ("boundary", J::u(b)),
                                ("filler_kind", J::u(fill)),
                                ("filler_units", J::u(units)),
                                ("line_index", J::u(q as u64)),
                                ("line", J::s(esc_bytes(&lines[q].0))),
                                ("outcome_in_full_history", J::s(outs[q].show())),
                                ("outcome_with_them_removed", J::s(o2.show())),
                                ("last_lines", J::Arr(lines[lines.len().saturating_sub(12)..].iter().map(|(x, _)| J::s(esc_bytes(x))).collect())),
                                ("build", J::s(subj::BUILD)),
                            ])
                        });
                        break;
                    }
                }
            }
        },
    )
}

// ---------------------------------------------------------------------------------------------
// ASM-HIST(d): every history over a core alphabet up to length d, judged by the history predicate
// (no monitor) and by the metamorphic no-trace statement.

pub fn hist_alphabet() -> Vec<Letter> {
    let mut v = Vec::new();
    for n in 2..=3u32 {
        for k in 1..=n {
            for id in [&b""[..], b"5"] {
                v.push(frag(n, k, id, false));
            }
        }
    }
    let t1 = type1_payload();
    v.push(frag(2, 2, b"10", false));
    v.push(frag(2, 1, b"10", false));
    v.push(Letter::new("Fd(2,1,-)+d", sentence(2, 1, b"", &t1[..13], 0), true));
    v.push(Letter::new("Fd(2,2,-)+d", sentence(2, 2, b"", &t1[13..], 0), true));
    v.push(frag(2, 2, b"", true));
    v.push(Letter::new("F~(2,2,-)+d", sentence(2, 2, b"", b"2~", 0), true));
    v.push(Letter::new("U(decodable)", sentence(1, 1, b"", &t1, 0), false));
    v.push(Letter::new("U(undecodable)+d", sentence(1, 1, b"5", b"0000", 0), true));
    let bad2 = Mk::new(2, 2, b"5", b"22b", 0);
    let wrong = format!("*{:02X}", bad2.xor() ^ 0x01);
    v.push(Letter::new("badsum F(2,2,5)", bad2.render_with(wrong.as_bytes()), false));
    v.push(Letter::new("garbage", b"$GPGGA,1,2,3*00".to_vec(), false));
    v.push(Letter::new("X(2,0,-)", sentence(2, 0, b"", b"20x", 0), false));
    v.push(Letter::new("X(2,3,5)", sentence(2, 3, b"5", b"23x", 0), false));
    v
}

struct HLetter {
    line: Vec<u8>,
    decode: bool,
    num: Option<(u8, u8, Option<u8>)>,
    payload: Vec<u8>,
    /// shape invalid or checksum wrong
    rejected_form: bool,
}

fn hletters(letters: &[Letter]) -> Vec<HLetter> {
    letters
        .iter()
        .map(|l| {
            let r = recognise(&l.line);
            let ok = matches!(&r, Some(p) if p.checksum_ok() && !p.embedded_star);
            HLetter {
                line: l.line.clone(),
                decode: l.decode,
                num: if ok { r.as_ref().map(|p| (p.n, p.k, p.id)) } else { None },
                payload: if ok { r.as_ref().map(|p| p.payload.to_vec()).unwrap_or_default() } else { vec![] },
                rejected_form: !ok,
            }
        })
        .collect()
}

fn run_hist(hl: &[HLetter], seq: &[usize]) -> Vec<Out> {
    let mut p = Parser::new();
    seq.iter().map(|&a| p.parse(&hl[a].line, hl[a].decode)).collect()
}

/// number of histories of length exactly len over a letters
fn pow(a: u64, len: u32) -> u64 {
    a.pow(len)
}

pub fn hist_space(prop: &'static str, d: u32) -> Space {
    let letters = hist_alphabet();
    let hl = hletters(&letters);
    let a = hl.len() as u64;
    let mut starts = Vec::new();
    let mut total = 0u64;
    for len in 1..=d {
        starts.push(total);
        total += pow(a, len);
    }
    Space::new(
        &format!("ASM-HIST({})", d),
        &format!("every history of length 1..={} over a {}-letter core alphabet, no de-duplication; history predicate (C06 as stated) and deletion metamorphism (C17)", d, a),
        total,
        move |i, l| {
            let li = match starts.binary_search(&i) {
                Ok(x) => x,
                Err(x) => x - 1,
            };
            let len = li + 1;
            let mut r = Radix(i - starts[li]);
            let mut seq = [0usize; 8];
            for s in seq.iter_mut().take(len) {
                *s = r.take(a) as usize;
            }
            let seq = &seq[..len];
            let outs = run_hist(&hl, seq);
            let mut hd = 0u64;
            for o in &outs {
                hd = crate::par::mix(hd ^ o.digest());
            }
            l.outcome(hd);
            let show = |outs: &[Out]| {
                J::obj(vec![
                    (
                        "history",
                        J::Arr(seq.iter().map(|&x| J::s(format!("{} [{}]", esc_bytes(&hl[x].line), letters[x].name))).collect()),
                    ),
                    ("history_hex", J::Arr(seq.iter().map(|&x| J::s(hex(&hl[x].line))).collect())),
                    ("decode", J::Arr(seq.iter().map(|&x| J::u(hl[x].decode as u64)).collect())),
                    ("outcomes", J::Arr(outs.iter().map(|o| J::s(o.show())).collect())),
                    ("build", J::s(subj::BUILD)),
                ])
            };
            if let Some(o) = outs.iter().find(|o| matches!(o, Out::Panic(_))) {
                let _ = o;
                l.class("panic");
                l.violation("hist.panic", || show(&outs));
                return;
            }
            if outs.iter().any(|o| matches!(o, Out::Complete(s) if s.n >= 2)) {
                l.nontrivial();
                l.class("delivers");
            } else {
                l.class("no-delivery");
            }
            // --- history predicate (C06)
            if prop == "C06" || prop == "C05" {
                let h: Vec<HEntry> = seq
                    .iter()
                    .zip(outs.iter())
                    .map(|(&x, o)| HEntry {
                        num: hl[x].num,
                        payload: hl[x].payload.clone(),
                        out: match o {
                            Out::Complete(_) => 'C',
                            Out::Incomplete(_) => 'I',
                            Out::Err(_) => 'E',
                            Out::Panic(_) => 'P',
                        },
                        data: match o {
                            Out::Complete(s) | Out::Incomplete(s) => s.data.clone(),
                            Out::Err(_) if hl[x].decode => b"\x00decode".to_vec(),
                            _ => vec![],
                        },
                    })
                    .collect();
                if let Err((at, why)) = history_predicate(&h, subj::NOALLOC) {
                    let accepted = matches!(outs[at], Out::Complete(_) | Out::Incomplete(_));
                    let sig = if accepted { "hist.accepts-bad-continuation" } else { "hist.rejects-good-continuation" };
                    // a wrongly rejected continuation contradicts C05, a wrongly accepted one C06
                    if (accepted && prop == "C06") || (!accepted && prop == "C05") {
                        l.violation(sig, || {
                            let mut j = show(&outs);
                            j.push("at", J::u(at as u64));
                            j.push("what", J::s(&why));
                            j
                        });
                    }
                }
            }
            // --- deletion metamorphism (C17)
            if prop == "C17" {
                for pos in 0..len {
                    let x = seq[pos];
                    let removable = hl[x].rejected_form
                        || match hl[x].num {
                            Some((n, k, _)) => {
                                let kind = asm::kind_of(n, k);
                                kind == Kind::Unfrag
                                    || (matches!(outs[pos], Out::Err(_)) && !(hl[x].decode && kind == Kind::Last))
                            }
                            None => false,
                        };
                    if !removable {
                        continue;
                    }
                    let mut shorter: Vec<usize> = seq.to_vec();
                    shorter.remove(pos);
                    let outs2 = run_hist(&hl, &shorter);
                    let mut same = true;
                    for q in 0..shorter.len() {
                        let orig = if q < pos { q } else { q + 1 };
                        if outs2[q].digest() != outs[orig].digest() {
                            same = false;
                            break;
                        }
                    }
                    if !same {
                        l.violation("hist.removal-changes-results", || {
                            let mut j = show(&outs);
                            j.push("removed_position", J::u(pos as u64));
                            j.push("outcomes_without_it", J::Arr(outs2.iter().map(|o| J::s(o.show())).collect()));
                            j
                        });
                        break;
                    }
                }
            }
            l.sample(|| show(&outs));
        },
    )
}

// ---------------------------------------------------------------------------------------------
// ASM-2P: two parser objects, all interleavings of two short streams

pub fn two_parsers(prop: &'static str) -> Space {
    let _ = prop;
    let t1 = type1_payload();
    let letters: Vec<Letter> = vec![
        frag(2, 1, b"", false),
        frag(2, 2, b"", false),
        frag(2, 1, b"5", false),
        frag(2, 2, b"5", false),
        frag(3, 2, b"5", false),
        Letter::new("U", sentence(1, 1, b"", &t1, 0), true),
        Letter::new("Fd1", sentence(2, 1, b"", &t1[..13], 0), true),
        Letter::new("Fd2", sentence(2, 2, b"", &t1[13..], 0), true),
    ];
    let a = letters.len() as u64;
    let nstreams = 1 + a + a * a + a * a * a;
    let decode_stream = move |mut s: u64| -> Vec<usize> {
        let mut len = 0;
        let mut cnt = 1;
        while s >= cnt {
            s -= cnt;
            cnt *= a;
            len += 1;
        }
        (0..len)
            .map(|_| {
                let d = (s % a) as usize;
                s /= a;
                d
            })
            .collect()
    };
    Space::new(
        "ASM-2P",
        "two parser objects, two streams of <= 3 letters each over an 8-letter alphabet, ALL interleavings (up to C(6,3)=20); each parser's results must equal its solo run",
        nstreams * nstreams * 20,
        move |i, l| {
            let mut r = Radix(i);
            let il = r.take(20);
            let sa = decode_stream(r.take(nstreams));
            let sb = decode_stream(r.take(nstreams));
            let (na, nb) = (sa.len(), sb.len());
            // interleaving number il -> which of the C(na+nb, na) merge orders
            let total = binom(na + nb, na);
            if il >= total {
                l.skip();
                return;
            }
            let order = nth_merge(na, nb, il);
            let solo = |s: &[usize]| -> Vec<u64> {
                let mut p = Parser::new();
                s.iter().map(|&x| p.parse(&letters[x].line, letters[x].decode).digest()).collect()
            };
            let (ea, eb) = (solo(&sa), solo(&sb));
            let mut pa = Parser::new();
            let mut pb = Parser::new();
            let (mut ia, mut ib) = (0, 0);
            let mut ok = true;
            for &which in &order {
                if which {
                    let x = sb[ib];
                    if pb.parse(&letters[x].line, letters[x].decode).digest() != eb[ib] {
                        ok = false;
                    }
                    ib += 1;
                } else {
                    let x = sa[ia];
                    if pa.parse(&letters[x].line, letters[x].decode).digest() != ea[ia] {
                        ok = false;
                    }
                    ia += 1;
                }
            }
            l.class(if na > 0 && nb > 0 { "interleaved" } else { "degenerate" });
            if na > 0 && nb > 0 {
                l.nontrivial();
            }
            let desc = || {
                J::obj(vec![
                    ("stream_a", J::Arr(sa.iter().map(|&x| J::s(&letters[x].name)).collect())),
                    ("stream_b", J::Arr(sb.iter().map(|&x| J::s(&letters[x].name)).collect())),
                    ("order", J::s(order.iter().map(|&w| if w { 'b' } else { 'a' }).collect::<String>())),
                    ("build", J::s(subj::BUILD)),
                ])
            };
            if !ok {
                l.violation("two-parsers.interference", desc);
            }
            l.sample(desc);
        },
    )
}

fn binom(n: usize, k: usize) -> u64 {
    let mut r = 1u64;
    for i in 0..k {
        r = r * (n - i) as u64 / (i + 1) as u64;
    }
    r
}

/// the idx-th merge order of na 'a's and nb 'b's (false = a, true = b), lexicographic
fn nth_merge(na: usize, nb: usize, mut idx: u64) -> Vec<bool> {
    let (mut a, mut b) = (na, nb);
    let mut out = Vec::with_capacity(na + nb);
    while a + b > 0 {
        if a == 0 {
            out.push(true);
            b -= 1;
        } else if b == 0 {
            out.push(false);
            a -= 1;
        } else {
            let with_a_first = binom(a - 1 + b, b);
            if idx < with_a_first {
                out.push(false);
                a -= 1;
            } else {
                idx -= with_a_first;
                out.push(true);
                b -= 1;
            }
        }
    }
    out
}

// ---------------------------------------------------------------------------------------------
// ASM-SPLIT (C05)

/// One decodable payload per supported layout variant, armored (fill bits set to 1 in the padding).
pub fn corpus() -> Vec<(String, Vec<u8>, u8)> {
    let mut out = Vec::new();
    let mut seen = Vec::new();
    for v in variants() {
        if seen.contains(&v.t) && !matches!(v.name.as_str(), "T24.B" | "T15.160" | "T16.two") {
            continue;
        }
        seen.push(v.t);
        let mut p = v.base(0);
        // position-coded contents, selectors re-applied
        for (j, b) in p.iter_mut().enumerate() {
            *b = (j as u8).wrapping_mul(29).wrapping_add(7);
        }
        for &(o, w, val) in &v.fix {
            crate::spec::msg::set_bits(&mut p, o, w, val);
        }
        let (chars, fill) = armor_bits(&p, v.nbits(), 1);
        out.push((v.name.clone(), chars, fill));
    }
    out
}

const SPLIT_IDS: [&[u8]; 7] = [b"", b"0", b"5", b"9", b"07", b"10", b"255"];

fn prior_lines(kind: u64, id: &[u8]) -> Vec<Vec<u8>> {
    let other: &[u8] = if id == b"3" { b"4" } else { b"3" };
    match kind {
        0 => vec![],
        1 => vec![sentence(3, 1, id, b"old", 0)],
        2 => vec![sentence(3, 1, other, b"old", 0), sentence(3, 2, other, b"er", 0)],
        3 => vec![sentence(2, 1, id, b"pre", 0), sentence(2, 2, id, b"vious", 0)],
        _ => vec![b"!AIVDM,garbage".to_vec()],
    }
}

fn noise_lines(kind: u64, id: &[u8]) -> Vec<Vec<u8>> {
    let other: &[u8] = if id == b"3" { b"4" } else { b"3" };
    let unfrag = sentence(1, 1, b"", &type1_payload(), 0);
    let badsum = Mk::new(2, 2, id, b"zz0", 0).render_with(b"*00");
    let orphan = sentence(2, 2, other, b"orphan", 0);
    match kind {
        0 => vec![],
        1 => vec![unfrag],
        2 => vec![badsum],
        3 => vec![orphan],
        _ => vec![unfrag, badsum, orphan],
    }
}

#[derive(Clone)]
struct SplitCase {
    payload: Vec<u8>,
    fill: u8,
    cuts: Vec<usize>,
    name: String,
}

/// Judge one fragmented transmission of `payload` cut at `cuts`.
fn viol(l: &mut Local, report: bool, sig: &str, d: impl FnOnce() -> J) {
    if report {
        l.violation(sig, d);
    }
}

fn judge_split(l: &mut Local, prop: &str, c: &SplitCase, id: &[u8], prior: u64, noise: u64, decode: bool) {
    // the differential oracle belongs to C05; other properties reuse the space for totality / digests
    let report = prop == "C05";
    use ais::sentence::{AisFragments, AisSentence};
    let mut bounds = vec![0usize];
    bounds.extend_from_slice(&c.cuts);
    bounds.push(c.payload.len());
    let m = bounds.len() - 1;
    let mut p = Parser::new();
    // two more parsers in lockstep for the Into<Option>/Into<Result> conversions
    let mut p_opt = ais::AisParser::new();
    let mut p_res = ais::AisParser::new();
    let mut fresh = Parser::new();
    let reference = fresh.parse(&sentence(1, 1, b"", &c.payload, c.fill), decode);
    let mut all_lines: Vec<Vec<u8>> = Vec::new();
    let feed = |p: &mut Parser, po: &mut ais::AisParser, pr: &mut ais::AisParser, line: &[u8], all: &mut Vec<Vec<u8>>| -> (Out, Result<Option<Option<AisSentence>>, String>, Result<Option<Result<AisSentence, ()>>, String>) {
        all.push(line.to_vec());
        let o = p.parse(line, decode);
        let a = crate::par::guard(|| po.parse(line, decode).ok().map(|f: AisFragments| Option::<AisSentence>::from(f)));
        let b = crate::par::guard(|| {
            pr.parse(line, decode).ok().map(|f: AisFragments| {
                let r: ais::errors::Result<AisSentence> = f.into();
                r.map_err(|_| ())
            })
        });
        (o, a, b)
    };
    for line in prior_lines(prior, id) {
        let _ = feed(&mut p, &mut p_opt, &mut p_res, &line, &mut all_lines);
    }
    let describe = |what: &str, all: &Vec<Vec<u8>>, out: &Out| {
        J::obj(vec![
            ("what", J::s(what)),
            ("payload", J::s(esc_bytes(&c.payload))),
            ("corpus_entry", J::s(&c.name)),
            ("cuts", J::Arr(c.cuts.iter().map(|&x| J::u(x as u64)).collect())),
            ("lines", J::Arr(all.iter().map(|x| J::s(esc_bytes(x))).collect())),
            ("decode", J::Bool(decode)),
            ("last_outcome", J::s(out.show())),
            ("unfragmented_reference", J::s(reference.show())),
            ("build", J::s(subj::BUILD)),
        ])
    };
    for j in 0..m {
        if j > 0 {
            for line in noise_lines(noise, id) {
                let kind_unfrag = recognise(&line).map(|q| q.n == 1).unwrap_or(false);
                let (o, _, _) = feed(&mut p, &mut p_opt, &mut p_res, &line, &mut all_lines);
                let good = if kind_unfrag { matches!(o, Out::Complete(_)) } else { matches!(o, Out::Err(_)) };
                if !good {
                    viol(l, report, "split.noise-outcome", || describe("a noise line between the fragments did not get its own outcome", &all_lines, &o));
                    return;
                }
            }
        }
        let piece = &c.payload[bounds[j]..bounds[j + 1]];
        let nonfinal_fill = if noise % 2 == 1 && prior % 2 == 1 { 5 } else { 0 };
        let fill = if j + 1 == m { c.fill } else { nonfinal_fill };
        let mut mk = Mk::new(m as u32, (j + 1) as u32, id, piece, fill);
        mk.chan = if j % 2 == 0 { b"A".to_vec() } else { b"B".to_vec() };
        let line = mk.render();
        let (o, conv_o, conv_r) = feed(&mut p, &mut p_opt, &mut p_res, &line, &mut all_lines);
        if let Out::Panic(_) = o {
            l.class("panic");
            l.violation("split.panic", || describe("panic", &all_lines, &o));
            return;
        }
        let last = j + 1 == m;
        if !last {
            match &o {
                Out::Incomplete(s) => {
                    let own = s.data == piece && s.n as usize == m && s.k as usize == j + 1 && s.fill == nonfinal_fill && s.msg.is_none()
                        && s.chan == Some(mk.chan[0] as char)
                        && s.id == recognise(&line).and_then(|q| q.id);
                    if !own {
                        viol(l, report, "split.incomplete-fields", || describe("a non-final fragment's Incomplete does not carry its own fields", &all_lines, &o));
                        return;
                    }
                }
                _ => {
                    if subj::NOALLOC && c.payload.len() > asm::NOALLOC_SENTENCE_CAP {
                        l.class("capacity");
                        return;
                    }
                    viol(l, report, "split.nonfinal-not-incomplete", || describe("a non-final in-order fragment did not yield Incomplete", &all_lines, &o));
                    return;
                }
            }
            // conversions: Incomplete -> None / Err
            if !matches!(conv_o, Ok(Some(None))) || !matches!(conv_r, Ok(Some(Err(())))) {
                viol(l, report, "split.conversion", || describe("Into<Option>/Into<Result> of an Incomplete result is not None/Err", &all_lines, &o));
                return;
            }
        } else {
            l.class(o.class());
            match (&o, &reference) {
                (Out::Complete(s), Out::Complete(rf)) => {
                    if s.data != c.payload {
                        viol(l, report, "split.wrong-payload", || describe("the Complete payload is not the exact concatenation", &all_lines, &o));
                        return;
                    }
                    if s.msg != rf.msg {
                        viol(l, report, "split.message-differs", || describe("the decoded message differs from the unfragmented transmission", &all_lines, &o));
                        return;
                    }
                    if s.n as usize != m || s.k as usize != m || s.fill != c.fill {
                        viol(l, report, "split.complete-fields", || describe("the Complete result does not carry the last fragment's fields", &all_lines, &o));
                        return;
                    }
                    // conversions: Complete -> Some(sentence) / Ok(sentence), the same sentence
                    let same = |x: &AisSentence| crate::canon::Sent::from(x) == *s;
                    let ok_o = matches!(&conv_o, Ok(Some(Some(x))) if same(x));
                    let ok_r = matches!(&conv_r, Ok(Some(Ok(x))) if same(x));
                    if !ok_o || !ok_r {
                        viol(l, report, "split.conversion", || describe("Into<Option>/Into<Result> of a Complete result is not exactly the sentence", &all_lines, &o));
                        return;
                    }
                    l.nontrivial();
                }
                (Out::Err(e), Out::Err(_)) if !e.is_checksum() => {
                    // undecodable both ways (only with decode = true)
                    if !decode {
                        viol(l, report, "split.rejected", || describe("in-order group rejected", &all_lines, &o));
                    }
                }
                _ => {
                    if subj::NOALLOC && c.payload.len() > asm::NOALLOC_SENTENCE_CAP {
                        l.class("capacity");
                        return;
                    }
                    viol(l, report, "split.differs-from-unfragmented", || describe("fragmented and unfragmented transmission disagree", &all_lines, &o));
                    return;
                }
            }
            l.outcome(o.digest());
            l.sample(|| describe("sample", &all_lines, &o));
        }
    }
}

fn context_count() -> u64 {
    SPLIT_IDS.len() as u64 * 5 * 5 * 2
}

/// (rest, id, prior history, noise pattern, decode). The noise pattern also selects the fill count
/// carried by the NON-final fragments (0, or 5 for odd patterns): it must be ignored.
fn with_context(i: u64) -> (u64, &'static [u8], u64, u64, bool) {
    let mut r = Radix(i);
    let id = SPLIT_IDS[r.take(SPLIT_IDS.len() as u64) as usize];
    let prior = r.take(5);
    let noise = r.take(5);
    let decode = r.take(2) == 1;
    (r.0, id, prior, noise, decode)
}

/// every 2-split of every corpus payload × contexts
pub fn split2(prop: &'static str) -> Space {
    let cp = corpus();
    let mut starts = Vec::new();
    let mut total = 0u64;
    for (_, p, _) in &cp {
        starts.push(total);
        total += (p.len() - 1) as u64;
    }
    Space::new(
        "ASM-SPLIT2",
        &format!("{} corpus payloads (one per layout) x every 2-split x 7 ids x 5 prior histories x 5 noise patterns x decode", cp.len()),
        total * context_count(),
        move |i, l| {
            let (k, id, prior, noise, decode) = with_context(i);
            let ci = match starts.binary_search(&k) {
                Ok(x) => x,
                Err(x) => x - 1,
            };
            let cut = (k - starts[ci]) as usize + 1;
            let c = SplitCase {
                payload: cp[ci].1.clone(),
                fill: cp[ci].2,
                cuts: vec![cut],
                name: cp[ci].0.clone(),
            };
            judge_split(l, prop, &c, id, prior, noise, decode);
        },
    )
}

/// every 3-split of every corpus payload of at most `max_len` characters × contexts
pub fn split3(prop: &'static str, max_len: usize) -> Space {
    let cp: Vec<_> = corpus().into_iter().filter(|c| c.1.len() <= max_len).collect();
    let mut starts = Vec::new();
    let mut total = 0u64;
    for (_, p, _) in &cp {
        starts.push(total);
        let n = (p.len() - 1) as u64;
        total += n * (n - 1) / 2;
    }
    Space::new(
        "ASM-SPLIT3",
        &format!("{} corpus payloads (<= {} chars) x every 3-split x 7 ids x 5 prior histories x 5 noise patterns x decode", cp.len(), max_len),
        total * context_count(),
        move |i, l| {
            let (k, id, prior, noise, decode) = with_context(i);
            let ci = match starts.binary_search(&k) {
                Ok(x) => x,
                Err(x) => x - 1,
            };
            let n = (cp[ci].1.len() - 1) as u64;
            // pair index -> (a<b) over n cut positions
            let mut kk = k - starts[ci];
            let mut a = 0u64;
            loop {
                let row = n - 1 - a;
                if kk < row {
                    break;
                }
                kk -= row;
                a += 1;
            }
            let b = a + 1 + kk;
            let c = SplitCase {
                payload: cp[ci].1.clone(),
                fill: cp[ci].2,
                cuts: vec![a as usize + 1, b as usize + 1],
                name: cp[ci].0.clone(),
            };
            judge_split(l, prop, &c, id, prior, noise, decode);
        },
    )
}

/// every composition of a 12-character payload (type 10) into 2..=9 parts × contexts
pub fn split_compositions(prop: &'static str) -> Space {
    let cp: Vec<_> = corpus().into_iter().filter(|c| c.0 == "T10").collect();
    let (name, payload, fill) = cp[0].clone();
    assert_eq!(payload.len(), 12);
    // subsets of the 11 cut positions with 1..=8 cuts
    let subsets: Vec<u16> = (1u16..(1 << 11)).filter(|m| (1..=8).contains(&m.count_ones())).collect();
    let ns = subsets.len() as u64;
    Space::new(
        "ASM-SPLIT-COMP",
        "a 12-character payload x every composition into 2..=9 fragments (1980) x 7 ids x 5 prior histories x 5 noise patterns x decode",
        ns * context_count(),
        move |i, l| {
            let (k, id, prior, noise, decode) = with_context(i);
            let mask = subsets[k as usize];
            let cuts: Vec<usize> = (0..11).filter(|b| mask >> b & 1 == 1).map(|b| b + 1).collect();
            let c = SplitCase {
                payload: payload.clone(),
                fill,
                cuts,
                name: name.clone(),
            };
            judge_split(l, prop, &c, id, prior, noise, decode);
        },
    )
}

/// payload content is opaque to reassembly: every position × every byte value except ',' and '*'
pub fn split_opaque(prop: &'static str) -> Space {
    Space::new(
        "ASM-SPLIT-OPAQUE",
        "16-byte payload x every position x every byte value except ',' and '*' x 3 cut points, decode off",
        16 * 256 * 3,
        move |i, l| {
            let mut r = Radix(i);
            let pos = r.take(16) as usize;
            let byte = r.take(256) as u8;
            let cut = [1usize, 8, 15][r.take(3) as usize];
            if byte == b',' || byte == b'*' {
                l.skip();
                return;
            }
            let mut payload = b"0123456789:;<=>?".to_vec();
            payload[pos] = byte;
            let c = SplitCase {
                payload,
                fill: 0,
                cuts: vec![cut],
                name: "opaque".into(),
            };
            judge_split(l, prop, &c, b"5", 0, 0, false);
        },
    )
}

pub fn c05(tier: Tier) -> Vec<Space> {
    let mut v = vec![
        split2("C05"),
        split3("C05", if tier == Tier::Quick { 34 } else { 80 }),
        split_compositions("C05"),
        split_opaque("C05"),
        hist_space("C05", 4),
        chain("C05"),
        groups("C05"),
        id_pairs("C05"),
        soak("C05"),
        soak_long("C05", if tier == Tier::Quick { 200_000 } else { 1_000_000 }),
        wrap("C05", tier == Tier::Thorough),
    ];
    if tier == Tier::Thorough {
        v.push(hist_space("C05", 6)); // directly continuing fragments must be accepted
    }
    v
}

pub fn c06(tier: Tier) -> Vec<Space> {
    vec![
        hist_space("C06", if tier == Tier::Quick { 5 } else { 6 }),
        chain("C06"),
        groups("C06"),
        id_pairs("C06"),
        soak("C06"),
        soak_long("C06", if tier == Tier::Quick { 200_000 } else { 1_000_000 }),
        wrap("C06", tier == Tier::Thorough),
    ]
}

pub fn c17(tier: Tier) -> Vec<Space> {
    // soak first: its long bursts need the behavioural-confirmation budget most
    vec![
        soak("C17"),
        hist_space("C17", if tier == Tier::Quick { 5 } else { 6 }),
        two_parsers("C17"),
        soak_long("C17", if tier == Tier::Quick { 200_000 } else { 1_000_000 }),
        wrap("C17", tier == Tier::Thorough),
        chain("C17"),
        groups("C17"),
    ]
}
