//! One entry point per property: which spaces, which oracle, which fields.
use crate::json::J;
use crate::par::Space;
use crate::Tier;

pub mod c03;

pub fn spaces(prop: &str, tier: Tier) -> Vec<Space> {
    match prop {
        "C03" => c03::spaces(tier),
        _ => {
            eprintln!("unknown property {}", prop);
            std::process::exit(2)
        }
    }
}

/// Explicit-state exploration parts (not index-addressable): returns a JSON report.
pub fn explore(_prop: &str, _tier: Tier) -> Option<J> {
    None
}

pub fn replay_history(_args: &[String]) -> i32 {
    2
}
