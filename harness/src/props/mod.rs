//! One entry point per property: which spaces, which oracle, which fields.
use crate::json::J;
use crate::par::Space;
use crate::Tier;

pub mod asmprops;
pub mod c03;
pub mod c12conv;
pub mod cli;
pub mod lineprops;
pub mod msgjudge;
pub mod msgprops;
pub mod msgspaces;

pub fn spaces(prop: &str, tier: Tier) -> Vec<Space> {
    match prop {
        "C01" => c01(tier),
        "C18" => c18(tier),
        "C20" => cli::c20(tier),
        "C02" => lineprops::c02(tier),
        "C07" => lineprops::c07(tier),
        "C08" => lineprops::c08(tier),
        "C19" => lineprops::c19(tier),
        "C03" => c03::spaces(tier),
        "C04" => msgprops::c04(tier),
        "C05" => asmprops::c05(tier),
        "C06" => asmprops::c06(tier),
        "C17" => asmprops::c17(tier),
        "C09" => msgprops::c09(tier),
        "C10" => msgprops::c10(tier),
        "C11" => msgprops::c11(tier),
        "C12" => msgprops::c12(tier),
        "C13" => msgprops::c13(tier),
        "C14" => msgprops::c14(tier),
        "C15" => msgprops::c15(tier),
        "C16" => msgprops::c16(tier),
        _ => {
            eprintln!("unknown property {}", prop);
            std::process::exit(2)
        }
    }
}

/// Explicit-state exploration parts (not index-addressable): returns a JSON report.
pub fn explore(prop: &str, tier: Tier) -> Option<J> {
    match prop {
        "C05" | "C06" | "C07" => Some(asmprops::run_explorer(prop, tier, false)),
        "C01" | "C02" | "C17" | "C18" => Some(asmprops::run_explorer(prop, tier, true)),
        _ => None,
    }
}

/// `hist <PROP> <decode:hexline>...` — replay one recorded history on a fresh parser, printing for
/// every step the monitor's expectation, the real outcome and the findings; exit 1 if a finding
/// contradicts PROP.
pub fn replay_history(args: &[String]) -> i32 {
    use crate::explore::{judge_step, Findings};
    use crate::spec::asm::{self, MState};
    let prop = args[0].as_str();
    let mut p = crate::subj::Parser::new();
    let mut m = MState::Closed;
    let mut bad = 0;
    let mut f: Findings = Vec::new();
    let mut hist_lines: Vec<(Vec<u8>, bool)> = Vec::new();
    for (i, a) in args[1..].iter().enumerate() {
        let (d, h) = match a.split_once(':') {
            Some(x) => x,
            None => return 2,
        };
        let decode = d == "1";
        let line = crate::json::unhex(h);
        let d0 = p.state();
        let (exp, m1) = asm::step(&m, &line, decode, crate::subj::NOALLOC);
        let out = p.parse(&line, decode);
        let d1 = p.state();
        println!("step {} line {:?} decode={}", i, crate::json::esc_bytes(&line), decode);
        println!("   expectation {:?}", exp);
        println!("   outcome     {}", out.show());
        println!("   parser      {}", d1);
        f.clear();
        judge_step(&exp, &line, decode, &out, &d0, &d1, &mut f);
        hist_lines.push((line.clone(), decode));
        let n = hist_lines.len();
        crate::explore::confirm_traces(&mut f, || {
            crate::explore::states_differ(&hist_lines[..n - 1], &hist_lines[..n], &crate::explore::probe_set(&m))
        });
        for (props, sig, why) in f.drain(..) {
            println!("   FINDING {} (contradicts {:?}): {}", sig, props, why);
            if props.contains(&prop) {
                bad += 1;
            }
        }
        m = m1;
    }
    println!("build={} findings_for_{}={}", crate::subj::BUILD, prop, bad);
    if bad > 0 {
        1
    } else {
        0
    }
}

/// C01 — totality: every space family, all three builds; only panics / hangs are reported.
fn c01(tier: Tier) -> Vec<Space> {
    use lineprops::*;
    let p = "C01";
    let mut v = vec![
        line_seeds(p),
        line_short(p, if tier == Tier::Quick { 5 } else { 7 }),
        line_mut1(p),
        line_field_edit(p),
        line_field_short(p, if tier == Tier::Quick { 3 } else { 4 }),
        line_grammar(p, tier == Tier::Thorough),
        line_cksum(p),
        line_typechar(p),
        line_typechar_group(p),
        asmprops::chain(p),
        asmprops::groups(p),
        asmprops::soak(p),
        asmprops::soak_long(p, if tier == Tier::Quick { 200_000 } else { 1_000_000 }),
        asmprops::wrap_light(p, tier == Tier::Thorough),
        line_numeric(p),
        line_lengths(p),
        asmprops::hist_space(p, if tier == Tier::Quick { 4 } else { 5 }),
        asmprops::split2(p),
    ];
    v.extend(c03::spaces_for(p, tier));
    v.extend(msgprops::c01_msg(tier));
    if tier == Tier::Thorough {
        v.push(line_mut2(p, 10));
        v.push(line_addr(p, false));
    }
    v
}

/// C18 — build equivalence: the same spaces in digest mode (per-chunk digests are compared by the
/// driver across the three builds), plus the capacity rule.
fn c18(tier: Tier) -> Vec<Space> {
    use lineprops::*;
    let p = "C18";
    let mut v = vec![
        line_seeds(p),
        line_mut1(p),
        line_field_edit(p),
        line_field_short(p, if tier == Tier::Quick { 3 } else { 4 }),
        line_grammar(p, tier == Tier::Thorough),
        line_cksum(p),
        line_typechar(p),
        line_typechar_group(p),
        asmprops::chain(p),
        asmprops::groups(p),
        asmprops::soak(p),
        asmprops::soak_long(p, if tier == Tier::Quick { 200_000 } else { 1_000_000 }),
        asmprops::wrap_light(p, tier == Tier::Thorough),
        line_numeric(p),
        line_lengths(p),
        asmprops::hist_space(p, if tier == Tier::Quick { 4 } else { 5 }),
        asmprops::split2(p),
        asmprops::split_compositions(p),
    ];
    v.extend(c03::spaces_for(p, tier));
    v.extend(msgprops::c18_msg(tier));
    if tier == Tier::Thorough {
        v.push(line_short(p, 6));
        v.push(line_mut2(p, 10));
        v.push(asmprops::split3(p, 34));
    }
    v
}

/// Letter of the TLA+ model -> the line fed to the real parser and the payload token it carries.
fn model_letter(n: u32, k: u32, i: u32) -> (Vec<u8>, Vec<u8>) {
    use crate::spec::line::{sentence, Mk};
    let id: Vec<u8> = if i == 0 { vec![] } else { i.to_string().into_bytes() };
    if n == 0 {
        // a rejected line: well-formed continuation with a wrong checksum
        let m = Mk::new(2, 2, &id, b"bad", 0);
        let wrong = format!("*{:02X}", m.xor() ^ 0x33);
        return (m.render_with(wrong.as_bytes()), vec![]);
    }
    let token = format!("{}{}{}", n, k, (b'a' + (i % 20) as u8) as char).into_bytes();
    (sentence(n, k, &id, &token, 0), token)
}

/// Trace conformance: every behaviour of the model (as dumped by TLC) is executed on the real
/// `AisParser`; each step's outcome class and delivered payload must coincide.
pub fn conform(path: &str) -> i32 {
    use crate::canon::Out;
    let text = match std::fs::read_to_string(path) {
        Ok(t) => t,
        Err(e) => {
            eprintln!("cannot read {}: {}", path, e);
            return 2;
        }
    };
    let (mut hists, mut steps, mut mism, mut deliveries) = (0u64, 0u64, 0u64, 0u64);
    let mut first: Option<String> = None;
    for line in text.lines() {
        if line.trim().is_empty() {
            continue;
        }
        hists += 1;
        let mut p = crate::subj::Parser::new();
        let mut shown: Vec<String> = Vec::new();
        for st in line.split_whitespace() {
            let parts: Vec<&str> = st.split('/').collect();
            let nums: Vec<u32> = parts[0].split('.').map(|x| x.parse().unwrap_or(0)).collect();
            let (sent, _tok) = model_letter(nums[0], nums[1], nums[2]);
            let want_payload: Vec<u8> = if parts[2] == "-" {
                vec![]
            } else {
                parts[2]
                    .split('+')
                    .flat_map(|f| {
                        let q: Vec<u32> = f.split('.').map(|x| x.parse().unwrap_or(0)).collect();
                        model_letter(q[0], q[1], q[2]).1
                    })
                    .collect()
            };
            let out = p.parse(&sent, false);
            steps += 1;
            let got = match &out {
                Out::Complete(_) => "complete",
                Out::Incomplete(_) => "incomplete",
                Out::Err(_) => "reject",
                Out::Panic(_) => "panic",
            };
            shown.push(format!("{} -> {}", crate::json::esc_bytes(&sent), out.show()));
            let mut ok = got == parts[1];
            if let Out::Complete(s) = &out {
                deliveries += 1;
                if s.data != want_payload {
                    ok = false;
                }
            }
            if !ok {
                mism += 1;
                if first.is_none() {
                    first = Some(format!("model step `{}` disagrees with the implementation; history: {}", st, shown.join(" | ")));
                }
                break;
            }
        }
    }
    println!(
        "{{\"behaviours\":{},\"steps\":{},\"deliveries\":{},\"mismatches\":{},\"build\":\"{}\",\"first_mismatch\":{}}}",
        hists,
        steps,
        deliveries,
        mism,
        crate::subj::BUILD,
        match &first {
            Some(f) => crate::json::J::s(f).render(),
            None => "null".to_string(),
        }
    );
    if mism > 0 {
        1
    } else {
        0
    }
}
