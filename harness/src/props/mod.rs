//! One entry point per property: which spaces, which oracle, which fields.
use crate::json::J;
use crate::par::Space;
use crate::Tier;

pub mod asmprops;
pub mod c03;
pub mod c12conv;
pub mod lineprops;
pub mod msgjudge;
pub mod msgprops;
pub mod msgspaces;

pub fn spaces(prop: &str, tier: Tier) -> Vec<Space> {
    match prop {
        "C02" => lineprops::c02(tier),
        "C07" => lineprops::c07(tier),
        "C08" => lineprops::c08(tier),
        "C19" => lineprops::c19(tier),
        "C03" => c03::spaces(tier),
        "C04" => msgprops::c04(tier),
        "C05" => asmprops::c05(tier),
        "C06" => asmprops::c06(tier),
        "C17" => asmprops::c17(tier),
        "C09" => msgprops::c09(tier),
        "C10" => msgprops::c10(tier),
        "C11" => msgprops::c11(tier),
        "C12" => msgprops::c12(tier),
        "C13" => msgprops::c13(tier),
        "C14" => msgprops::c14(tier),
        "C15" => msgprops::c15(tier),
        "C16" => msgprops::c16(tier),
        _ => {
            eprintln!("unknown property {}", prop);
            std::process::exit(2)
        }
    }
}

/// Explicit-state exploration parts (not index-addressable): returns a JSON report.
pub fn explore(prop: &str, tier: Tier) -> Option<J> {
    match prop {
        "C05" | "C06" => Some(asmprops::run_explorer(prop, tier, false)),
        "C01" | "C02" | "C17" | "C18" => Some(asmprops::run_explorer(prop, tier, true)),
        _ => None,
    }
}

pub fn replay_history(_args: &[String]) -> i32 {
    2
}
