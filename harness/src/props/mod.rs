//! One entry point per property: which spaces, which oracle, which fields.
use crate::json::J;
use crate::par::Space;
use crate::Tier;

pub mod asmprops;
pub mod c03;
pub mod c12conv;
pub mod cli;
pub mod lineprops;
pub mod msgjudge;
pub mod msgprops;
pub mod msgspaces;

pub fn spaces(prop: &str, tier: Tier) -> Vec<Space> {
    match prop {
        "C01" => c01(tier),
        "C18" => c18(tier),
        "C20" => cli::c20(tier),
        "C02" => lineprops::c02(tier),
        "C07" => lineprops::c07(tier),
        "C08" => lineprops::c08(tier),
        "C19" => lineprops::c19(tier),
        "C03" => c03::spaces(tier),
        "C04" => msgprops::c04(tier),
        "C05" => asmprops::c05(tier),
        "C06" => asmprops::c06(tier),
        "C17" => asmprops::c17(tier),
        "C09" => msgprops::c09(tier),
        "C10" => msgprops::c10(tier),
        "C11" => msgprops::c11(tier),
        "C12" => msgprops::c12(tier),
        "C13" => msgprops::c13(tier),
        "C14" => msgprops::c14(tier),
        "C15" => msgprops::c15(tier),
        "C16" => msgprops::c16(tier),
        _ => {
            eprintln!("unknown property {}", prop);
            std::process::exit(2)
        }
    }
}

/// Explicit-state exploration parts (not index-addressable): returns a JSON report.
pub fn explore(prop: &str, tier: Tier) -> Option<J> {
    match prop {
        "C05" | "C06" => Some(asmprops::run_explorer(prop, tier, false)),
        "C01" | "C02" | "C17" | "C18" => Some(asmprops::run_explorer(prop, tier, true)),
        _ => None,
    }
}

pub fn replay_history(_args: &[String]) -> i32 {
    2
}

/// C01 — totality: every space family, all three builds; only panics / hangs are reported.
fn c01(tier: Tier) -> Vec<Space> {
    use lineprops::*;
    let p = "C01";
    let mut v = vec![
        line_seeds(p),
        line_short(p, if tier == Tier::Quick { 5 } else { 7 }),
        line_mut1(p),
        line_field_edit(p),
        line_grammar(p, tier == Tier::Thorough),
        line_cksum(p),
        line_typechar(p),
        asmprops::chain(p),
        asmprops::hist_space(p, if tier == Tier::Quick { 4 } else { 5 }),
        asmprops::split2(p),
    ];
    v.extend(c03::spaces_for(p, tier));
    v.extend(msgprops::c01_msg(tier));
    if tier == Tier::Thorough {
        v.push(line_mut2(p, 10));
        v.push(line_addr(p, false));
    }
    v
}

/// C18 — build equivalence: the same spaces in digest mode (per-chunk digests are compared by the
/// driver across the three builds), plus the capacity rule.
fn c18(tier: Tier) -> Vec<Space> {
    use lineprops::*;
    let p = "C18";
    let mut v = vec![
        line_seeds(p),
        line_mut1(p),
        line_field_edit(p),
        line_grammar(p, tier == Tier::Thorough),
        line_cksum(p),
        line_typechar(p),
        asmprops::chain(p),
        asmprops::hist_space(p, if tier == Tier::Quick { 4 } else { 5 }),
        asmprops::split2(p),
        asmprops::split_compositions(p),
    ];
    v.extend(c03::spaces_for(p, tier));
    v.extend(msgprops::c18_msg(tier));
    if tier == Tier::Thorough {
        v.push(line_short(p, 6));
        v.push(line_mut2(p, 10));
        v.push(asmprops::split3(p, 34));
    }
    v
}
