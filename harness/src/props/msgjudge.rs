//! Shared oracle for `messages::parse`: compare the decoded message with `spec::msg::expect`,
//! attribute each mismatch to the property whose statement it contradicts, and report only the
//! mismatches that belong to the property being checked.
use crate::canon::{Fid, Val};
use crate::json::{hex, J};
use crate::par::Local;
use crate::spec::msg::{self, Class, Expectation, Mismatch, Status};
use crate::subj::{self, DecodeOut};

/// Which properties a mismatch contradicts.
pub fn props_of(m: &Mismatch) -> &'static [&'static str] {
    let listed = m.id.1 != 255;
    match (m.class, m.clause) {
        (Class::Radio, _) => &["C16"],
        (_, "missing") | (_, "unexpected") => &["C14"],
        (Class::Type, _) => &["C09"],
        (Class::Int, _) if listed => &["C04", "C14"],
        (Class::Int, _) if matches!(m.id.0, "mmsi2" | "offset2" | "increment2") => &["C04", "C14"],
        (Class::Int, _) if matches!(m.id.0, "dac" | "fid") || m.id.0.starts_with("payload.") => &["C04", "C15"],
        // type 21 carries the assigned-mode indicator as a plain flag: C12 names it among the codes
        (Class::Int, _) if m.id.0 == "assigned_mode" => &["C04", "C12"],
        (Class::Int, _) => &["C04"],
        (Class::Scaled, "presence") => &["C11"],
        (Class::Scaled, _) => &["C10"],
        (Class::Opt, _) if listed => &["C11", "C14"],
        (Class::Opt, _) => &["C11"],
        (Class::Enum, _) => &["C12"],
        (Class::Text, _) if matches!(m.id.0, "destination" | "text") => &["C13", "C14"],
        (Class::Text, _) => &["C13"],
        (Class::Len, _) => &["C14"],
        (Class::Bin, _) => &["C15"],
    }
}

#[derive(Clone, Copy)]
pub struct Cfg {
    pub prop: &'static str,
    /// report acceptance/rejection mismatches (MustErr accepted, MustOk rejected)
    pub judge_status: bool,
}

fn describe(p: &[u8], exp: &Expectation, got: &DecodeOut, extra: Option<&Mismatch>) -> J {
    let mut j = J::obj(vec![
        ("payload_hex", J::s(hex(p))),
        ("payload_bits", J::u(p.len() as u64 * 8)),
        ("message_type", J::u(exp.mtype as u64)),
        ("build", J::s(subj::BUILD)),
        ("status_expected", J::s(format!("{:?}", exp.status))),
        ("observed", J::s(got.show())),
    ]);
    if let Some(m) = extra {
        j.push("field", J::s(format!("{}", m.id)));
        j.push("clause", J::s(m.clause));
        j.push("expected", J::s(&m.expected));
        j.push("observed_field", J::s(&m.observed));
    }
    j
}

/// Type 9 known defect D6: the state is read as SOTDMA at bit 148 (one bit early, selector ignored).
/// Returns true iff the observed radio fields are EXACTLY that reading.
fn is_type9_read_at_148(p: &[u8], got: &[(Fid, Val)]) -> bool {
    // build a pseudo payload whose bits 149.. are the real bits 148.. and decode it as type 1
    let mut q = vec![0u8; 21];
    msg::set_bits(&mut q, 0, 6, 1);
    for i in 0..19 {
        let bit = msg::get_bits(p, 148 + i, 1).unwrap_or(0);
        msg::set_bits(&mut q, 149 + i, 1, bit);
    }
    let e = msg::expect(&q);
    let radio: Vec<_> = e.fields.iter().filter(|s| s.class == Class::Radio).collect();
    let got_radio: Vec<_> = got.iter().filter(|(id, _)| id.0.starts_with("radio.")).collect();
    radio.len() == got_radio.len()
        && radio.iter().all(|sf| {
            got_radio
                .iter()
                .any(|(id, v)| *id == sf.id && msg::matches(&sf.exp, v))
        })
}

thread_local! {
    static SCRATCH: std::cell::RefCell<Vec<Mismatch>> = const { std::cell::RefCell::new(Vec::new()) };
}

/// Decode `p` with the real crate and judge it for `cfg.prop`. Returns true if it decoded.
pub fn judge_payload(l: &mut Local, p: &[u8], cfg: Cfg) -> bool {
    let exp = msg::expect(p);
    let got = subj::decode(p);
    judge_decoded(l, p, &exp, &got, cfg)
}

pub fn judge_decoded(l: &mut Local, p: &[u8], exp: &Expectation, got: &DecodeOut, cfg: Cfg) -> bool {
    l.class(got.class());
    l.outcome(if exp.noalloc_may_err { crate::par::CAP_TOKEN } else { got.digest() });
    let t = exp.mtype;
    let mut decoded = false;
    match got {
        DecodeOut::Panic(_) => {
            l.violation(&format!("T{}.panic", t), || describe(p, exp, got, None));
        }
        DecodeOut::Err(_) => {
            if cfg.judge_status && exp.status == Status::MustOk && !(subj::NOALLOC && exp.noalloc_may_err) {
                l.violation(&format!("T{}.rejects-decodable", t), || describe(p, exp, got, None));
            }
            if matches!(exp.status, Status::Either(_)) {
                l.unjudged();
            }
        }
        DecodeOut::Ok(fields) => {
            decoded = true;
            l.nontrivial();
            if let Status::MustErr(why) = exp.status {
                if cfg.judge_status {
                    let sig = if msg::variant_for(t).is_none() {
                        format!("type{}.accepts-unsupported", t)
                    } else {
                        format!("T{}.accepts-short", t)
                    };
                    let _ = why;
                    l.violation(&sig, || describe(p, exp, got, None));
                }
                return decoded;
            }
            if matches!(exp.status, Status::Either(_)) {
                l.unjudged();
            }
            // C09: the variant follows the type
            if cfg.prop == "C09" {
                if let Some((_, Val::T(v))) = fields.first() {
                    if *v != exp.variant {
                        l.violation(&format!("type{}.variant", t), || describe(p, exp, got, None));
                    }
                }
            }
            SCRATCH.with(|s| {
                let mut mm = s.borrow_mut();
                msg::compare(exp, fields, &mut mm);
                for m in mm.iter() {
                    // C18: beyond a documented capacity the no-allocator build may answer Err, but an
                    // Ok must be the full, untruncated message
                    let c18_truncation = cfg.prop == "C18" && subj::NOALLOC && exp.noalloc_may_err;
                    if !props_of(m).contains(&cfg.prop) && !c18_truncation {
                        continue;
                    }
                    let sig = if t == 9 && m.class == Class::Radio && is_type9_read_at_148(p, fields) {
                        "T9.radio.read-at-148".to_string()
                    } else {
                        format!("T{}.{}.{}", t, m.id, m.clause)
                    };
                    l.violation(&sig, || describe(p, exp, got, Some(m)));
                }
            });
        }
    }
    l.sample(|| describe(p, exp, got, None));
    decoded
}
