//! C03 — unarmoring is the exact 6-bit unpacking with fill bits cleared.
use crate::json::{esc_bytes, hex, J};
use crate::par::{hash_bytes, Local, Radix, Space};
use crate::spec::unarmor::{armor_char, unarmor_ref};
use crate::subj::{self, UnarmorOut};
use crate::Tier;

/// Capacity of the no-allocator output buffer (bytes); beyond it `Err` is permitted (C18).
pub const NOALLOC_CAP: usize = 384;

pub fn judge(l: &mut Local, s: &[u8], fill: usize) {
    judge_for(l, s, fill, "C03")
}

/// `prop` = "C03": full oracle; "C01": totality only; "C18": digests + capacity rule.
pub fn judge_for(l: &mut Local, s: &[u8], fill: usize, prop: &str) {
    let got = subj::unarmor(s, fill);
    let want = unarmor_ref(s, fill);
    let beyond = (6 * s.len()).div_ceil(8) > NOALLOC_CAP;
    let over_cap = subj::NOALLOC && beyond;
    let full = prop == "C03";
    let describe = |got: &UnarmorOut, want: &Option<Vec<u8>>| {
        J::obj(vec![
            ("input", J::s(esc_bytes(s))),
            ("input_hex", J::s(hex(s))),
            ("fill", J::u(fill as u64)),
            (
                "expected",
                match want {
                    None => J::s("Err (byte outside the armoring alphabet)"),
                    Some(w) => J::s(format!("Ok({})", hex(w))),
                },
            ),
            (
                "observed",
                match got {
                    UnarmorOut::Ok(g) => J::s(format!("Ok({})", hex(g))),
                    UnarmorOut::Err(e) => J::s(e.show()),
                    UnarmorOut::Panic(p) => J::s(format!("PANIC({})", p)),
                },
            ),
            ("build", J::s(subj::BUILD)),
        ])
    };
    match (&got, &want) {
        (UnarmorOut::Panic(_), _) => {
            l.class("panic");
            l.violation("unarmor.panic", || describe(&got, &want));
        }
        (UnarmorOut::Ok(g), Some(w)) => {
            l.class("ok");
            if !s.is_empty() {
                l.nontrivial();
            }
            l.outcome(if beyond { crate::par::CAP_TOKEN } else { hash_bytes(fill as u64, g) });
            if g != w && (full || (prop == "C18" && over_cap)) {
                let sig = if g.len() != w.len() {
                    "unarmor.length"
                } else if fill > 0 && unarmor_ref(s, 0).as_deref() == Some(&g[..]) {
                    "unarmor.fill-not-cleared"
                } else if fill > 0 {
                    "unarmor.fill-mask"
                } else {
                    "unarmor.bits"
                };
                l.violation(sig, || describe(&got, &want));
            }
        }
        (UnarmorOut::Err(_), None) => {
            l.class("err");
            l.outcome(if beyond { crate::par::CAP_TOKEN } else { 0xE });
        }
        (UnarmorOut::Err(_), Some(_)) if over_cap => {
            l.class("err_capacity");
            l.outcome(crate::par::CAP_TOKEN);
        }
        (UnarmorOut::Err(_), Some(_)) => {
            l.class("err");
            l.outcome(0xE);
            if full {
                l.violation("unarmor.rejects-legal", || describe(&got, &want));
            }
        }
        (UnarmorOut::Ok(g), None) => {
            l.class("ok");
            l.outcome(if beyond { crate::par::CAP_TOKEN } else { hash_bytes(fill as u64, g) });
            if full {
                l.violation("unarmor.accepts-illegal", || describe(&got, &want));
            }
        }
    }
    l.sample(|| describe(&got, &want));
}

/// All strings over `alpha` of length exactly `len`, × fill 0..=5.
pub fn all_strings(prop: &'static str, name: &str, alpha: Vec<u8>, len: usize) -> Space {
    let a = alpha.len() as u64;
    let size = a.pow(len as u32) * 6;
    Space::new(
        name,
        &format!("every string of length {} over {} byte values x fill 0..=5", len, a),
        size,
        move |i, l| {
            let mut r = Radix(i);
            let fill = r.take(6) as usize;
            let mut s = [0u8; 8];
            for c in s.iter_mut().take(len) {
                *c = alpha[r.take(a) as usize];
            }
            judge_for(l, &s[..len], fill, prop);
        },
    )
}

fn base_string(kind: u64, len: usize) -> Vec<u8> {
    (0..len)
        .map(|i| match kind {
            0 => b'0',                                  // all zero bits
            1 => b'w',                                  // all one bits
            _ => armor_char(((i * 37 + 11) % 64) as u8), // position coded
        })
        .collect()
}

pub const LONG_LENGTHS_EXTRA: [usize; 7] = [383, 384, 385, 511, 512, 513, 1000];

/// One deviation: every length × 3 base strings × every position × all 256 byte values × fill.
pub fn long_one_deviation(prop: &'static str, max_short: usize) -> Space {
    let mut lengths: Vec<usize> = (0..=max_short).collect();
    lengths.extend(LONG_LENGTHS_EXTRA);
    // prefix sums of positions (length 0 contributes one pseudo-position so it is not lost)
    let mut starts = Vec::new();
    let mut total = 0u64;
    for &n in &lengths {
        starts.push(total);
        total += n.max(1) as u64;
    }
    let size = total * 3 * 256 * 6;
    Space::new(
        "UNARMOR-LONG-1DEV",
        &format!(
            "lengths 0..={} and {:?} x 3 base strings x every position x all 256 byte values x fill 0..=5",
            max_short, LONG_LENGTHS_EXTRA
        ),
        size,
        move |i, l| {
            let mut r = Radix(i);
            let fill = r.take(6) as usize;
            let byte = r.take(256) as u8;
            let kind = r.take(3);
            let p = r.take(total);
            let li = match starts.binary_search(&p) {
                Ok(x) => x,
                Err(x) => x - 1,
            };
            let n = lengths[li];
            let pos = (p - starts[li]) as usize;
            let mut s = base_string(kind, n);
            if n == 0 {
                if byte != 0 {
                    l.skip();
                    return;
                }
            } else {
                if s[pos] == byte {
                    l.skip(); // replacing a byte by itself is not a deviation
                    return;
                }
                s[pos] = byte;
            }
            judge_for(l, &s, fill, prop);
        },
    )
}

/// Two deviations: every adjacent pair of positions × 64² legal characters, lengths covering all
/// four phases at the start, middle and end of the string.
pub fn long_adjacent_pairs(prop: &'static str) -> Space {
    let lengths: Vec<usize> = vec![2, 3, 4, 5, 6, 7, 8, 9, 21, 22, 23, 24, 28, 47, 70, 71];
    let mut starts = Vec::new();
    let mut total = 0u64;
    for &n in &lengths {
        starts.push(total);
        total += (n - 1) as u64;
    }
    let size = total * 64 * 64 * 6 * 2;
    Space::new(
        "UNARMOR-LONG-PAIRS",
        "16 lengths (all phases) x 2 base strings x every adjacent pair of positions x 64^2 legal characters x fill 0..=5",
        size,
        move |i, l| {
            let mut r = Radix(i);
            let fill = r.take(6) as usize;
            let c0 = armor_char(r.take(64) as u8);
            let c1 = armor_char(r.take(64) as u8);
            let kind = r.take(2) * 2; // 0 or position-coded
            let p = r.take(total);
            let li = match starts.binary_search(&p) {
                Ok(x) => x,
                Err(x) => x - 1,
            };
            let n = lengths[li];
            let pos = (p - starts[li]) as usize;
            let mut s = base_string(kind, n);
            s[pos] = c0;
            s[pos + 1] = c1;
            judge_for(l, &s, fill, prop);
        },
    )
}

pub fn legal_alphabet() -> Vec<u8> {
    (0..64).map(armor_char).collect()
}

pub fn spaces(tier: Tier) -> Vec<Space> {
    spaces_for("C03", tier)
}

pub fn spaces_for(prop: &'static str, tier: Tier) -> Vec<Space> {
    let all: Vec<u8> = (0..=255u8).collect();
    let mut v = vec![
        all_strings(prop, "UNARMOR-ALL(0)", all.clone(), 0),
        all_strings(prop, "UNARMOR-ALL(1)", all.clone(), 1),
        all_strings(prop, "UNARMOR-ALL(2)", all.clone(), 2),
        all_strings(prop, "UNARMOR-64(3)", legal_alphabet(), 3),
        long_one_deviation(prop, 96),
    ];
    if prop == "C03" || tier == Tier::Thorough {
        v.push(all_strings(prop, "UNARMOR-64(4)", legal_alphabet(), 4));
        v.push(long_adjacent_pairs(prop));
    }
    if tier == Tier::Thorough {
        v.push(all_strings(prop, "UNARMOR-ALL(3)", all, 3));
        if prop == "C03" {
            v.push(all_strings(prop, "UNARMOR-64(5)", legal_alphabet(), 5));
        }
    }
    v
}
