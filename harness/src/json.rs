//! Minimal JSON value + renderer (no third-party crates: everything must build offline).
use std::fmt::Write;

#[derive(Clone, Debug, PartialEq)]
pub enum J {
    Null,
    Bool(bool),
    Int(i64),
    UInt(u64),
    Num(f64),
    Str(String),
    Arr(Vec<J>),
    Obj(Vec<(String, J)>),
}

impl J {
    pub fn obj(v: Vec<(&str, J)>) -> J {
        J::Obj(v.into_iter().map(|(k, v)| (k.to_string(), v)).collect())
    }
    pub fn s<T: AsRef<str>>(s: T) -> J {
        J::Str(s.as_ref().to_string())
    }
    pub fn u(v: u64) -> J {
        J::UInt(v)
    }
    /// Printable rendering of a byte string: ASCII kept, everything else as \xNN.
    pub fn bytes(b: &[u8]) -> J {
        J::Str(esc_bytes(b))
    }
    pub fn push(&mut self, k: &str, v: J) {
        if let J::Obj(o) = self {
            o.push((k.to_string(), v));
        }
    }
    pub fn render(&self) -> String {
        let mut s = String::new();
        self.write(&mut s);
        s
    }
    fn write(&self, out: &mut String) {
        match self {
            J::Null => out.push_str("null"),
            J::Bool(b) => out.push_str(if *b { "true" } else { "false" }),
            J::Int(i) => {
                let _ = write!(out, "{}", i);
            }
            J::UInt(i) => {
                let _ = write!(out, "{}", i);
            }
            J::Num(f) => {
                if f.is_finite() {
                    let _ = write!(out, "{}", f);
                } else {
                    out.push_str("null");
                }
            }
            J::Str(s) => write_str(out, s),
            J::Arr(a) => {
                out.push('[');
                for (i, v) in a.iter().enumerate() {
                    if i > 0 {
                        out.push(',');
                    }
                    v.write(out);
                }
                out.push(']');
            }
            J::Obj(o) => {
                out.push('{');
                for (i, (k, v)) in o.iter().enumerate() {
                    if i > 0 {
                        out.push(',');
                    }
                    write_str(out, k);
                    out.push(':');
                    v.write(out);
                }
                out.push('}');
            }
        }
    }
}

fn write_str(out: &mut String, s: &str) {
    out.push('"');
    for c in s.chars() {
        match c {
            '"' => out.push_str("\\\""),
            '\\' => out.push_str("\\\\"),
            '\n' => out.push_str("\\n"),
            '\r' => out.push_str("\\r"),
            '\t' => out.push_str("\\t"),
            c if (c as u32) < 0x20 => {
                let _ = write!(out, "\\u{:04x}", c as u32);
            }
            c => out.push(c),
        }
    }
    out.push('"');
}

pub fn esc_bytes(b: &[u8]) -> String {
    let mut s = String::with_capacity(b.len());
    for &c in b {
        if (0x20..0x7f).contains(&c) && c != b'\\' {
            s.push(c as char);
        } else {
            let _ = write!(s, "\\x{:02x}", c);
        }
    }
    s
}

pub fn hex(b: &[u8]) -> String {
    let mut s = String::with_capacity(b.len() * 2);
    for &c in b {
        let _ = write!(s, "{:02x}", c);
    }
    s
}

pub fn unhex(s: &str) -> Vec<u8> {
    let b = s.as_bytes();
    (0..b.len() / 2)
        .map(|i| {
            let h = (b[2 * i] as char).to_digit(16).unwrap_or(0) as u8;
            let l = (b[2 * i + 1] as char).to_digit(16).unwrap_or(0) as u8;
            (h << 4) | l
        })
        .collect()
}
