//! C05/C06/C17 reference: reassembly monitor (a function of the history) and the history predicate
//! (the C06 sentence itself, sharing no code with the monitor).
use super::line::{recognise, Parsed};
use super::msg::{self, Status};
use super::unarmor::unarmor_ref;

pub const NOALLOC_SENTENCE_CAP: usize = 384;

/// How a validly shaped, checksum-correct sentence is numbered.
#[derive(Clone, Copy, Debug, PartialEq, Eq)]
pub enum Kind {
    /// n = 1, k = 1
    Unfrag,
    /// n >= 2, k = 1
    First,
    /// n >= 2, 2 <= k < n
    Cont,
    /// n >= 2, k = n
    Last,
    /// k = 0, k > n, n = 0: outside the statements of C05/C06
    Invalid,
}

pub fn kind_of(n: u8, k: u8) -> Kind {
    if n == 0 || k == 0 || k > n {
        Kind::Invalid
    } else if n == 1 {
        Kind::Unfrag
    } else if k == 1 {
        Kind::First
    } else if k < n {
        Kind::Cont
    } else {
        Kind::Last
    }
}

#[derive(Clone, Debug, PartialEq, Eq, Hash)]
pub enum MState {
    Closed,
    Open {
        id: Option<u8>,
        last_k: u8,
        payload: Vec<u8>,
    },
    /// after an accepted, invalidly numbered sentence: not judged until the next fragment 1
    Unknown,
}

/// What the decoding step must produce for a delivered payload.
#[derive(Clone, Debug, PartialEq, Eq)]
pub enum DecodeExp {
    NotRequested,
    MustFail,
    MustSucceed,
    Either,
}

pub fn decode_exp(payload: &[u8], fill: u8, decode: bool, noalloc: bool) -> DecodeExp {
    if !decode {
        return DecodeExp::NotRequested;
    }
    match unarmor_ref(payload, fill as usize) {
        None => DecodeExp::MustFail,
        Some(bytes) => {
            if noalloc && bytes.len() > NOALLOC_SENTENCE_CAP {
                return DecodeExp::Either;
            }
            let e = msg::expect(&bytes);
            match e.status {
                Status::MustErr(_) => DecodeExp::MustFail,
                Status::MustOk if noalloc && e.noalloc_may_err => DecodeExp::Either,
                Status::MustOk => DecodeExp::MustSucceed,
                Status::Either(_) => DecodeExp::Either,
            }
        }
    }
}

#[derive(Clone, Debug, PartialEq, Eq)]
pub enum Expect {
    /// the line does not have the sentence shape: `Err`, never a checksum error, no trace
    RejectForm,
    /// shape valid, checksum wrong: `Err(Checksum{expected = transmitted, found = computed})`, no trace
    RejectChecksum { transmitted: u8, computed: u8 },
    /// `Complete(own payload)`, no trace (whether or not the payload decodes)
    Unfrag { decode: DecodeExp },
    /// `Incomplete(own fields)`
    Incomplete,
    /// `Complete(payload)`; an `Err` from decoding is the only permitted alternative
    Deliver { payload: Vec<u8>, decode: DecodeExp },
    /// continuation that does not continue the open group: `Err`, no trace
    RejectSequence,
    /// no-allocator capacity exceeded: `Err` required
    RejectCapacity,
    /// zone U1: a '*' inside the address, channel or payload field. Which text "the transmitted
    /// value" is, is ambiguous (after the FIRST '*', as C02 reads literally, or after the structural
    /// one, as C08 and the pinned code read it) — but under every reading the COMPUTED side is the XOR
    /// of the bytes between the delimiter and the first '*'. So: if the line is accepted, that XOR must
    /// equal one of the two candidate transmitted values; a checksum error must carry it as `found`.
    EmbeddedStar {
        xor_first: u8,
        transmitted_structural: u8,
        transmitted_after_first: Option<u32>,
    },
    /// not judged (invalid numbering, unknown monitor state)
    Unjudged(&'static str),
}

/// One monitor step. Returns the expectation and the next monitor state.
pub fn step(st: &MState, line: &[u8], decode: bool, noalloc: bool) -> (Expect, MState) {
    let p: Parsed = match recognise(line) {
        None => return (Expect::RejectForm, st.clone()),
        Some(p) => p,
    };
    if noalloc && p.payload.len() > NOALLOC_SENTENCE_CAP {
        return (Expect::RejectCapacity, st.clone());
    }
    if p.embedded_star {
        // U1: which value "the checksum" is, is ambiguous; the line may be accepted or rejected
        return (
            Expect::EmbeddedStar {
                xor_first: p.xor,
                transmitted_structural: p.transmitted,
                transmitted_after_first: super::line::hex_after_first_star(line),
            },
            MState::Unknown,
        );
    }
    if !p.checksum_ok() {
        return (
            Expect::RejectChecksum {
                transmitted: p.transmitted,
                computed: p.xor,
            },
            st.clone(),
        );
    }
    match kind_of(p.n, p.k) {
        Kind::Unfrag => (
            Expect::Unfrag {
                decode: decode_exp(p.payload, p.fill, decode, noalloc),
            },
            st.clone(),
        ),
        Kind::Invalid => (Expect::Unjudged("invalid fragment numbering"), MState::Unknown),
        Kind::First => (
            Expect::Incomplete,
            MState::Open {
                id: p.id,
                last_k: 1,
                payload: p.payload.to_vec(),
            },
        ),
        Kind::Cont | Kind::Last => {
            let is_last = p.k == p.n;
            match st {
                MState::Open { id, last_k, payload }
                    if *id == p.id && *last_k as u16 + 1 == p.k as u16 =>
                {
                    let mut whole = payload.clone();
                    whole.extend_from_slice(p.payload);
                    if noalloc && whole.len() > NOALLOC_SENTENCE_CAP {
                        // rejected like any other line: the group stays as it was (the previously
                        // ACCEPTED fragment is still last_k), so only a fragment last_k+1 that fits can
                        // continue it
                        return (Expect::RejectCapacity, st.clone());
                    }
                    if is_last {
                        let d = decode_exp(&whole, p.fill, decode, noalloc);
                        (Expect::Deliver { payload: whole, decode: d }, MState::Closed)
                    } else {
                        (
                            Expect::Incomplete,
                            MState::Open {
                                id: *id,
                                last_k: p.k,
                                payload: whole,
                            },
                        )
                    }
                }
                MState::Unknown => (Expect::Unjudged("after an invalidly numbered sentence"), MState::Unknown),
                _ => (Expect::RejectSequence, st.clone()),
            }
        }
    }
}

// ---------------------------------------------------------------------------------------------
// history predicate (C06 as stated, no monitor)

/// Abstract view of one history entry: the numbering read off the line and the real outcome.
#[derive(Clone, Debug)]
pub struct HEntry {
    /// None if the line is not a well-formed, checksum-correct sentence (or is in zone U1)
    pub num: Option<(u8, u8, Option<u8>)>,
    pub payload: Vec<u8>,
    /// real outcome: 'C' complete, 'I' incomplete, 'E' error, 'P' panic
    pub out: char,
    /// payload of the real Complete/Incomplete result
    pub data: Vec<u8>,
}

/// Evaluate the C06 statement on a history. Returns `Err(description)` for the first entry that
/// contradicts it.
///
/// For every validly numbered sentence i with n >= 2, k >= 2: it is accepted iff the previously
/// accepted fragment (latest j < i with n_j >= 2 and outcome Complete/Incomplete) was fragment
/// k-1 with the same id, was itself Incomplete (group not yet delivered), and belongs to a group
/// opened by a fragment 1. A delivered payload is the in-order concatenation along that chain.
pub fn history_predicate(h: &[HEntry], noalloc: bool) -> Result<(), (usize, String)> {
    for i in 0..h.len() {
        let (n, k, id) = match h[i].num {
            Some(x) => x,
            None => continue,
        };
        if kind_of(n, k) == Kind::Invalid || n < 2 || k < 2 {
            continue;
        }
        // an invalidly numbered accepted sentence earlier makes the group state unjudged until the
        // next fragment 1
        let mut chain: Vec<usize> = Vec::new();
        let mut j = i;
        let mut want_k = k;
        let mut want_id = id;
        let mut legit = true;
        let mut unjudged = false;
        let mut ambiguous = false;
        loop {
            // previous accepted fragment before j
            let prev = (0..j).rev().find(|&x| {
                (h[x].out == 'C' || h[x].out == 'I')
                    && match h[x].num {
                        Some((nn, _, _)) => nn != 1,
                        None => true, // accepted although not recognised (zone U1): state unknown
                    }
            });
            let p = match prev {
                None => {
                    legit = false;
                    break;
                }
                Some(p) => p,
            };
            // a final fragment whose DECODING failed in between closed (or may have closed) the group
            if (p + 1..j).any(|x| h[x].data == b"\x00decode") {
                ambiguous = true;
            }
            let (pn, pk, pid) = match h[p].num {
                Some(x) => x,
                None => {
                    unjudged = true;
                    break;
                }
            };
            if kind_of(pn, pk) == Kind::Invalid {
                unjudged = true;
                break;
            }
            if h[p].out != 'I' || pk as u16 + 1 != want_k as u16 || pid != want_id {
                legit = false;
                break;
            }
            chain.push(p);
            if pk == 1 {
                break; // opened by a fragment 1
            }
            j = p;
            want_k = pk;
            want_id = pid;
        }
        if unjudged {
            continue;
        }
        // capacity (no-allocator): a legit continuation may be rejected if the group would not fit
        let mut expected: Vec<u8> = Vec::new();
        if legit {
            for &c in chain.iter().rev() {
                expected.extend_from_slice(&h[c].payload);
            }
            expected.extend_from_slice(&h[i].payload);
        }
        // zone: intermediate rejected-by-capacity fragments poison the group
        let accepted = h[i].out == 'C' || h[i].out == 'I';
        if h[i].out == 'P' {
            return Err((i, "panic".into()));
        }
        if !legit && accepted {
            return Err((
                i,
                format!(
                    "fragment {}/{} id {:?} accepted although it does not continue an open group",
                    k, n, id
                ),
            ));
        }
        if legit && !accepted {
            let over = noalloc && expected.len() > NOALLOC_SENTENCE_CAP;
            // a decode failure on the final fragment is an error too; the caller passes decode=false
            // letters or undecodable payloads knowingly: treat 'E' on a last fragment as acceptable
            // only when decoding was requested (encoded by the caller in `data` == b"\x00decode").
            let decode_fail = h[i].data == b"\x00decode";
            if !over && !decode_fail && !ambiguous {
                return Err((
                    i,
                    format!("fragment {}/{} id {:?} directly continues the open group but was rejected", k, n, id),
                ));
            }
        }
        if legit && h[i].out == 'C' && h[i].data != expected {
            return Err((
                i,
                "delivered payload is not the in-order concatenation of fragments 1..k of one group".into(),
            ));
        }
        if legit && h[i].out == 'C' && k != n {
            return Err((i, "Complete before the last fragment".into()));
        }
        if legit && h[i].out == 'I' && k == n {
            return Err((i, "last fragment yields Incomplete".into()));
        }
    }
    Ok(())
}
