// placeholder
