//! C04, C09–C16 reference: table-driven ITU-R M.1371 decoder.
//!
//! Written from the standard's field lists (bit offset, width, meaning), NOT from the crate. A
//! generic MSB-first bit extractor fills the tables in. `expect(payload)` is total: it returns
//! whether the payload must be rejected, must decode, or lies in an unjudged zone, plus — for every
//! field the message should report — its identifier, bit location, class and expected value.
use crate::canon::{f, fi, fij, Fid, Val, CARRIER};

/// Which property a field's comparison belongs to.
#[derive(Clone, Copy, Debug, PartialEq, Eq)]
pub enum Class {
    /// the message's own type field (C09)
    Type,
    /// integers, flags, identifiers (C04)
    Int,
    /// coordinates / speed / course / draught: value clause C10, presence clause C11
    Scaled,
    /// sentinel-only optional fields: heading, rot, altitude, date parts, slot offset (C11)
    Opt,
    /// enumerated codes (C12)
    Enum,
    /// 6-bit text (C13)
    Text,
    /// element counts, optional-branch presence (C14)
    Len,
    /// binary pass-through (C15)
    Bin,
    /// communication state (C16)
    Radio,
}

#[derive(Clone, Debug, PartialEq)]
pub enum Exp {
    Is(Val),
    /// exact quotient; the f32 result must be within 2^-22 relative (≈ 2 ulp)
    Approx(f64),
    OneOf(Vec<Val>),
    Any,
}

#[derive(Clone, Debug)]
pub struct SF {
    pub id: Fid,
    pub class: Class,
    pub off: u16,
    pub w: u16,
    pub exp: Exp,
    /// compare only if the implementation reports this field (optional list elements)
    pub if_reported: bool,
    /// for scaled fields at their sentinel: what the scaling formula would give (a present value
    /// different from this is a VALUE defect as well as a presence defect)
    pub formula: Option<f64>,
}

#[derive(Clone, Debug, PartialEq, Eq)]
pub enum Status {
    MustErr(&'static str),
    MustOk,
    /// unjudged zone: `Err` or a sound `Ok` are both accepted
    Either(&'static str),
}

#[derive(Clone, Debug)]
pub struct Expectation {
    pub status: Status,
    pub mtype: u8,
    pub variant: &'static str,
    pub fields: Vec<SF>,
    /// the no-allocator build may answer `Err` instead (documented capacity exceeded)
    pub noalloc_may_err: bool,
}

pub const SUPPORTED: [u8; 23] = [
    1, 2, 3, 4, 5, 6, 7, 8, 9, 10, 11, 12, 13, 14, 15, 16, 17, 18, 19, 20, 21, 24, 27,
];

pub fn variant_for(t: u8) -> Option<&'static str> {
    Some(match t {
        1..=3 => "PositionReport",
        4 => "BaseStationReport",
        5 => "StaticAndVoyageRelatedData",
        6 => "BinaryAddressedMessage",
        7 => "BinaryAcknowledgeMessage",
        8 => "BinaryBroadcastMessage",
        9 => "StandardAircraftPositionReport",
        10 => "UtcDateInquiry",
        11 => "UtcDateResponse",
        12 => "AddressedSafetyRelatedMessage",
        13 => "SafetyRelatedAcknowledgment",
        14 => "SafetyRelatedBroadcastMessage",
        15 => "Interrogation",
        16 => "AssignmentModeCommand",
        17 => "DgnssBroadcastBinaryMessage",
        18 => "StandardClassBPositionReport",
        19 => "ExtendedClassBPositionReport",
        20 => "DataLinkManagementMessage",
        21 => "AidToNavigationReport",
        24 => "StaticDataReport",
        27 => "LongRangeAisBroadcastMessage",
        _ => return None,
    })
}

// ---------------------------------------------------------------------------------------------
// bit access (MSB first)

#[inline]
pub fn get_bits(b: &[u8], off: usize, w: usize) -> Option<u64> {
    if off + w > b.len() * 8 || w > 56 {
        if w > 56 && off + w <= b.len() * 8 {
            // rare wide read: bit by bit
            let mut v = 0u64;
            for p in off..off + w {
                v = (v << 1) | ((b[p / 8] >> (7 - p % 8)) & 1) as u64;
            }
            return Some(v);
        }
        return None;
    }
    if w == 0 {
        return Some(0);
    }
    // gather the (at most 8) bytes that contain the field into one big-endian word
    let first = off / 8;
    let last = (off + w - 1) / 8;
    let mut acc = 0u64;
    for &x in &b[first..=last] {
        acc = (acc << 8) | x as u64;
    }
    let nbytes = last - first + 1;
    let tail = nbytes * 8 - (off % 8) - w;
    Some((acc >> tail) & ((1u64 << w) - 1))
}

#[inline]
pub fn set_bits(b: &mut [u8], off: usize, w: usize, v: u64) {
    for i in 0..w {
        let p = off + i;
        if p >= b.len() * 8 {
            break;
        }
        let bit = ((v >> (w - 1 - i)) & 1) as u8;
        let m = 0x80u8 >> (p % 8);
        if bit == 1 {
            b[p / 8] |= m;
        } else {
            b[p / 8] &= !m;
        }
    }
}

#[inline]
pub fn sign_extend(v: u64, w: usize) -> i64 {
    if (v >> (w - 1)) & 1 == 1 {
        (v as i64) - (1i64 << w)
    } else {
        v as i64
    }
}

pub fn sixbit_char(v: u8) -> char {
    if v < 32 {
        (v + 64) as char
    } else {
        v as char
    }
}

/// 6-bit ASCII decoding of `n` characters at `off`, then: leading spaces, trailing '@', trailing
/// spaces removed.
pub fn text_at(b: &[u8], off: usize, n: usize) -> Option<String> {
    let mut s = String::with_capacity(n);
    for i in 0..n {
        s.push(sixbit_char(get_bits(b, off + 6 * i, 6)? as u8));
    }
    Some(trim_text(&s).to_string())
}

pub fn trim_text(s: &str) -> &str {
    s.trim_start_matches(' ')
        .trim_end_matches('@')
        .trim_end_matches(' ')
}

// ---------------------------------------------------------------------------------------------
// enumerations: ITU code -> canonical value (see canon.rs for the reverse maps)

pub fn e_nav_status(c: u64) -> Val {
    if c == 15 {
        Val::N
    } else {
        Val::U(c)
    }
}
pub fn e_maneuver(c: u64) -> Val {
    match c {
        0 => Val::N,
        1 | 2 => Val::U(c),
        _ => Val::U(CARRIER + c),
    }
}
pub fn e_epfd(c: u64) -> Val {
    match c {
        0 | 15 => Val::N,
        1..=8 => Val::U(c),
        _ => Val::U(CARRIER + c),
    }
}
pub fn e_ship(c: u64) -> Val {
    match c {
        0 => Val::N,
        100.. => Val::N,
        1..=19 | 38 | 39 => Val::U(CARRIER + c),
        30..=37 => Val::U(c),
        50..=55 | 58 | 59 => Val::U(c),
        56 | 57 => Val::U(5 * CARRIER + c),
        _ => {
            // decades 2, 4, 6, 7, 8, 9: x0 all, x1..x4 hazard A–D, x5..x8 reserved, x9 no info
            let (d, u) = (c / 10, c % 10);
            match (d, u) {
                (2, 5..=9) => Val::U(2 * CARRIER + c), // WIG: 25..29 reserved
                (_, 5..=8) => Val::U(d * CARRIER + c),
                _ => Val::U(c),
            }
        }
    }
}
pub fn e_navaid(c: u64) -> Val {
    if c == 0 {
        Val::N
    } else {
        Val::U(c)
    }
}
pub fn e_plain(c: u64) -> Val {
    Val::U(c)
}
pub fn e_part(c: u64) -> Val {
    match c {
        0 | 1 => Val::U(c),
        _ => Val::U(CARRIER + c),
    }
}

// ---------------------------------------------------------------------------------------------
// builder

struct B<'a> {
    b: &'a [u8],
    out: Vec<SF>,
    opt: bool,
}

impl<'a> B<'a> {
    fn nbits(&self) -> usize {
        self.b.len() * 8
    }
    fn push(&mut self, id: Fid, class: Class, off: usize, w: usize, exp: Exp) {
        self.out.push(SF {
            id,
            class,
            off: off as u16,
            w: w as u16,
            exp,
            if_reported: self.opt,
            formula: None,
        });
    }
    fn raw(&self, off: usize, w: usize) -> Option<u64> {
        get_bits(self.b, off, w)
    }
    fn uint(&mut self, id: Fid, off: usize, w: usize) {
        if let Some(v) = self.raw(off, w) {
            self.push(id, Class::Int, off, w, Exp::Is(Val::U(v)));
        }
    }
    fn flag(&mut self, id: Fid, off: usize) {
        if let Some(v) = self.raw(off, 1) {
            self.push(id, Class::Int, off, 1, Exp::Is(Val::B(v == 1)));
        }
    }
    fn header(&mut self) {
        if let Some(v) = self.raw(0, 6) {
            self.push(f("message_type"), Class::Type, 0, 6, Exp::Is(Val::U(v)));
        }
        self.uint(f("repeat_indicator"), 6, 2);
        self.uint(f("mmsi"), 8, 30);
    }
    fn enumf(&mut self, id: Fid, off: usize, w: usize, table: fn(u64) -> Val) {
        if let Some(v) = self.raw(off, w) {
            self.push(id, Class::Enum, off, w, Exp::Is(table(v)));
        }
    }
    /// signed coordinate: two's complement of its own width, raw/div degrees, absent at `sentinel`
    fn coord(&mut self, id: Fid, off: usize, w: usize, div: f64, sentinel: i64) {
        if let Some(v) = self.raw(off, w) {
            let s = sign_extend(v, w);
            let e = if s == sentinel {
                Exp::Is(Val::N)
            } else {
                Exp::Approx(s as f64 / div)
            };
            self.push(id, Class::Scaled, off, w, e);
            if s == sentinel {
                self.out.last_mut().unwrap().formula = Some(s as f64 / div);
            }
        }
    }
    /// unsigned scaled value, absent at `sentinel` (if any)
    fn scaled(&mut self, id: Fid, off: usize, w: usize, div: f64, sentinel: Option<u64>) {
        if let Some(v) = self.raw(off, w) {
            let e = if Some(v) == sentinel {
                Exp::Is(Val::N)
            } else {
                Exp::Approx(v as f64 / div)
            };
            self.push(id, Class::Scaled, off, w, e);
            if Some(v) == sentinel {
                self.out.last_mut().unwrap().formula = Some(v as f64 / div);
            }
        }
    }
    /// optional unsigned: absent exactly at `sentinel`, raw value passed through otherwise
    fn opt_u(&mut self, id: Fid, off: usize, w: usize, sentinel: u64) {
        if let Some(v) = self.raw(off, w) {
            let e = if v == sentinel { Val::N } else { Val::U(v) };
            self.push(id, Class::Opt, off, w, Exp::Is(e));
        }
    }
    fn rot(&mut self, id: Fid, off: usize) {
        if let Some(v) = self.raw(off, 8) {
            let s = sign_extend(v, 8);
            let e = if s == -128 { Val::N } else { Val::I(s) };
            self.push(id, Class::Opt, off, 8, Exp::Is(e));
        }
    }
    fn text(&mut self, id: Fid, off: usize, nchars: usize) {
        if let Some(s) = text_at(self.b, off, nchars) {
            self.push(id, Class::Text, off, 6 * nchars, Exp::Is(Val::S(s)));
        }
    }
    fn dims(&mut self, off: usize) {
        self.uint(f("dimension_to_bow"), off, 9);
        self.uint(f("dimension_to_stern"), off + 9, 9);
        self.uint(f("dimension_to_port"), off + 18, 6);
        self.uint(f("dimension_to_starboard"), off + 24, 6);
    }
    fn lonlat28(&mut self, off: usize) {
        self.coord(f("longitude"), off, 28, 600_000.0, 108_600_000);
        self.coord(f("latitude"), off + 28, 27, 600_000.0, 54_600_000);
    }
    fn lonlat18(&mut self, off: usize) {
        self.coord(f("longitude"), off, 18, 600.0, 108_600);
        self.coord(f("latitude"), off + 18, 17, 600.0, 54_600);
    }
    fn date6(&mut self, off: usize) {
        self.opt_u(f("year"), off, 14, 0);
        self.opt_u(f("month"), off + 14, 4, 0);
        self.opt_u(f("day"), off + 18, 5, 0);
        self.uint(f("hour"), off + 23, 5);
        self.opt_u(f("minute"), off + 28, 6, 60);
        self.opt_u(f("second"), off + 34, 6, 60);
    }
    fn rpush(&mut self, name: &'static str, off: usize, w: usize, exp: Exp) {
        self.push(f(name), Class::Radio, off, w, exp);
    }
    /// SOTDMA communication state, 19 bits at `off`
    fn sotdma(&mut self, off: usize) {
        let (sync, tmo, sub) = match (self.raw(off, 2), self.raw(off + 2, 3), self.raw(off + 5, 14)) {
            (Some(a), Some(b), Some(c)) => (a, b, c),
            _ => return,
        };
        self.rpush("radio.kind", off, 19, Exp::Is(Val::T("sotdma")));
        self.rpush("radio.sync", off, 2, Exp::Is(Val::U(sync)));
        self.rpush("radio.timeout", off + 2, 3, Exp::Is(Val::U(tmo)));
        match tmo {
            0 => {
                self.rpush("radio.sub", off + 5, 14, Exp::Is(Val::T("slot_offset")));
                self.rpush("radio.sub.value", off + 5, 14, Exp::Is(Val::I(sub as i64)));
            }
            1 => {
                // bits 13..9 hour, bits 8..2 minute, bits 1..0 not used
                let hour = sub >> 9;
                let min7 = (sub >> 2) & 0x7f;
                let min6 = (sub >> 2) & 0x3f;
                self.rpush("radio.sub", off + 5, 14, Exp::Is(Val::T("utc")));
                self.rpush("radio.sub.hour", off + 5, 5, Exp::Is(Val::U(hour)));
                // U2: minute >= 64 is not a time; accept the 7-bit and the 6-bit reading
                let e = if min7 == min6 {
                    Exp::Is(Val::U(min7))
                } else {
                    Exp::OneOf(vec![Val::U(min7), Val::U(min6)])
                };
                self.rpush("radio.sub.minute", off + 10, 7, e);
            }
            2 | 4 | 6 => {
                self.rpush("radio.sub", off + 5, 14, Exp::Is(Val::T("slot_number")));
                self.rpush("radio.sub.value", off + 5, 14, Exp::Is(Val::I(sub as i64)));
            }
            _ => {
                self.rpush("radio.sub", off + 5, 14, Exp::Is(Val::T("received_stations")));
                self.rpush("radio.sub.value", off + 5, 14, Exp::Is(Val::I(sub as i64)));
            }
        }
    }
    /// ITDMA communication state, 19 bits at `off`
    fn itdma(&mut self, off: usize) {
        let (sync, inc, n, keep) = match (
            self.raw(off, 2),
            self.raw(off + 2, 13),
            self.raw(off + 15, 3),
            self.raw(off + 18, 1),
        ) {
            (Some(a), Some(b), Some(c), Some(d)) => (a, b, c, d),
            _ => return,
        };
        self.rpush("radio.kind", off, 19, Exp::Is(Val::T("itdma")));
        self.rpush("radio.sync", off, 2, Exp::Is(Val::U(sync)));
        self.rpush("radio.increment", off + 2, 13, Exp::Is(Val::I(inc as i64)));
        self.rpush("radio.num_slots", off + 15, 3, Exp::Is(Val::U(n)));
        self.rpush("radio.keep", off + 18, 1, Exp::Is(Val::B(keep == 1)));
    }
}

/// characters in a text of `bits` bits
fn chars_in(bits: usize) -> usize {
    bits / 6
}

pub const NOALLOC_TEXT_CAP: usize = 20;
pub const NOALLOC_BIN_CAP: usize = 119;

/// The reference decoder. Total: any byte string gets an expectation.
pub fn expect(p: &[u8]) -> Expectation {
    let nbits = p.len() * 8;
    let mut b = B {
        b: p,
        out: Vec::with_capacity(32),
        opt: false,
    };
    let t = match get_bits(p, 0, 6) {
        Some(t) => t as u8,
        None => {
            return Expectation {
                status: Status::MustErr("empty payload"),
                mtype: 0,
                variant: "-",
                fields: vec![],
                noalloc_may_err: false,
            }
        }
    };
    let variant = match variant_for(t) {
        Some(v) => v,
        None => {
            return Expectation {
                status: Status::MustErr("unsupported message type"),
                mtype: t,
                variant: "-",
                fields: vec![],
                noalloc_may_err: false,
            }
        }
    };
    let mut noalloc_may_err = false;
    let must = |min_bits: usize| -> Status {
        if nbits >= min_bits {
            Status::MustOk
        } else {
            Status::MustErr("shorter than the mandatory part of its type")
        }
    };
    b.header();
    let status = match t {
        1..=3 => {
            b.enumf(f("navigation_status"), 38, 4, e_nav_status);
            b.rot(f("rate_of_turn"), 42);
            b.scaled(f("speed_over_ground"), 50, 10, 10.0, Some(1023));
            b.enumf(f("position_accuracy"), 60, 1, e_plain);
            b.lonlat28(61);
            b.scaled(f("course_over_ground"), 116, 12, 10.0, Some(3600));
            b.opt_u(f("true_heading"), 128, 9, 511);
            b.uint(f("timestamp"), 137, 6);
            b.enumf(f("maneuver_indicator"), 143, 2, e_maneuver);
            b.flag(f("raim"), 148);
            if t == 3 {
                b.itdma(149);
            } else {
                b.sotdma(149);
            }
            must(168)
        }
        4 | 11 => {
            b.date6(38);
            b.enumf(f("fix_quality"), 78, 1, e_plain);
            b.lonlat28(79);
            b.enumf(f("epfd_type"), 134, 4, e_epfd);
            b.flag(f("raim"), 148);
            b.sotdma(149);
            must(168)
        }
        5 => {
            b.uint(f("ais_version"), 38, 2);
            b.uint(f("imo_number"), 40, 30);
            b.text(f("callsign"), 70, 7);
            b.text(f("vessel_name"), 112, 20);
            b.enumf(f("ship_type"), 232, 8, e_ship);
            b.dims(240);
            b.enumf(f("epfd_type"), 270, 4, e_epfd);
            b.opt_u(f("eta_month_utc"), 274, 4, 0);
            b.opt_u(f("eta_day_utc"), 278, 5, 0);
            b.uint(f("eta_hour_utc"), 283, 5);
            b.opt_u(f("eta_minute_utc"), 288, 6, 60);
            b.scaled(f("draught"), 294, 8, 10.0, None);
            if nbits >= 302 {
                // truncated destination: the whole characters present, at most 20
                let n = chars_in(nbits - 302).min(20);
                b.text(f("destination"), 302, n);
                let after = 302 + 6 * n;
                let e = if n == 20 {
                    // bit 422 is the DTE flag (nbits >= 424 here)
                    Exp::Is(Val::U(get_bits(p, 422, 1).unwrap()))
                } else if nbits == after {
                    Exp::Is(Val::U(1)) // missing DTE defaults to "not ready"
                } else {
                    // U3: stray bits after the last whole character
                    Exp::OneOf(vec![Val::U(get_bits(p, after, 1).unwrap()), Val::U(1)])
                };
                let class = if n == 20 { Class::Enum } else { Class::Len };
                b.push(f("dte"), class, after, 1, e);
            }
            must(302)
        }
        6 => {
            b.uint(f("seqno"), 38, 2);
            b.uint(f("dest_mmsi"), 40, 30);
            b.flag(f("retransmit"), 70);
            b.uint(f("dac"), 72, 10);
            b.uint(f("fid"), 82, 6);
            if nbits >= 88 {
                let d = p[11..].to_vec();
                noalloc_may_err = d.len() > NOALLOC_BIN_CAP;
                b.push(f("data"), Class::Bin, 88, nbits - 88, Exp::Is(Val::Y(d)));
            }
            must(88)
        }
        8 => {
            b.uint(f("dac"), 40, 10);
            b.uint(f("fid"), 50, 6);
            if nbits >= 56 {
                let d = p[7..].to_vec();
                noalloc_may_err = d.len() > NOALLOC_BIN_CAP;
                b.push(f("data"), Class::Bin, 56, nbits - 56, Exp::Is(Val::Y(d)));
            }
            must(56)
        }
        7 | 13 => {
            if nbits >= 72 {
                let n = ((nbits - 40) / 32).min(4);
                b.push(f("acks.len"), Class::Len, 40, 32 * n, Exp::Is(Val::U(n as u64)));
                for i in 0..n {
                    b.uint(fi("acks[#].mmsi", i), 40 + 32 * i, 30);
                    b.uint(fi("acks[#].seq_num", i), 70 + 32 * i, 2);
                }
            }
            must(72)
        }
        9 => {
            b.opt_u(f("altitude"), 38, 12, 4095);
            b.scaled(f("speed_over_ground"), 50, 10, 1.0, Some(1023));
            b.enumf(f("position_accuracy"), 60, 1, e_plain);
            b.lonlat28(61);
            b.scaled(f("course_over_ground"), 116, 12, 10.0, Some(3600));
            b.uint(f("timestamp"), 128, 6);
            b.enumf(f("dte"), 142, 1, e_plain);
            b.enumf(f("assigned_mode"), 146, 1, e_plain);
            b.flag(f("raim"), 147);
            match get_bits(p, 148, 1) {
                Some(0) => b.sotdma(149),
                Some(_) => b.itdma(149),
                None => {}
            }
            must(168)
        }
        10 => {
            b.uint(f("dest_mmsi"), 40, 30);
            must(70)
        }
        12 => {
            b.uint(f("seqno"), 38, 2);
            b.uint(f("dest_mmsi"), 40, 30);
            b.flag(f("retransmit"), 70);
            if nbits >= 78 {
                let n = chars_in(nbits - 72);
                noalloc_may_err = n > NOALLOC_TEXT_CAP;
                b.text(f("text"), 72, n);
            }
            must(78)
        }
        14 => {
            if nbits >= 46 {
                let n = chars_in(nbits - 40);
                noalloc_may_err = n > NOALLOC_TEXT_CAP;
                b.text(f("text"), 40, n);
            }
            must(46)
        }
        15 => {
            // legal forms: 88 bits; 110 bits (112 with padding); 160 bits
            b.uint(fi("stations[#].mmsi", 0), 40, 30);
            b.uint(fij("stations[#].messages[#].message_type", 0, 0), 70, 6);
            let legal = matches!(nbits, 88 | 112 | 160);
            if nbits >= 88 {
                b.opt_u(fij("stations[#].messages[#].slot_offset", 0, 0), 76, 12, 0);
            }
            if legal {
                let nst = if nbits == 160 { 2 } else { 1 };
                b.push(f("stations.len"), Class::Len, 40, nbits - 40, Exp::Is(Val::U(nst)));
                if nbits >= 112 {
                    let zero2 = get_bits(p, 90, 18) == Some(0);
                    let e = if zero2 {
                        // an all-zero second request means "no second request"
                        Exp::OneOf(vec![Val::U(1), Val::U(2)])
                    } else {
                        Exp::Is(Val::U(2))
                    };
                    b.push(fi("stations[#].messages.len", 0), Class::Len, 90, 18, e);
                    b.opt = true;
                    b.uint(fij("stations[#].messages[#].message_type", 0, 1), 90, 6);
                    b.opt_u(fij("stations[#].messages[#].slot_offset", 0, 1), 96, 12, 0);
                    b.opt = false;
                } else {
                    b.push(fi("stations[#].messages.len", 0), Class::Len, 70, 18, Exp::Is(Val::U(1)));
                }
                if nbits == 160 {
                    b.uint(fi("stations[#].mmsi", 1), 110, 30);
                    b.push(fi("stations[#].messages.len", 1), Class::Len, 140, 18, Exp::Is(Val::U(1)));
                    b.uint(fij("stations[#].messages[#].message_type", 1, 0), 140, 6);
                    b.opt_u(fij("stations[#].messages[#].slot_offset", 1, 0), 146, 12, 0);
                }
                Status::MustOk
            } else if nbits < 76 {
                Status::MustErr("shorter than the mandatory part of its type")
            } else {
                // U4: not one of the legal forms. Whatever IS reported for the first request must
                // still equal the bits at its position; the rest is not judged.
                for s in b.out.iter_mut() {
                    s.if_reported = true;
                }
                Status::Either("U4: type 15 at a length that is not one of its legal forms")
            }
        }
        16 => {
            b.uint(f("mmsi1"), 40, 30);
            b.uint(f("offset1"), 70, 12);
            b.uint(f("increment1"), 82, 10);
            if nbits >= 144 {
                b.uint(f("mmsi2"), 92, 30);
                b.uint(f("offset2"), 122, 12);
                b.uint(f("increment2"), 134, 10);
            } else if nbits >= 92 {
                b.push(f("mmsi2"), Class::Len, 92, 0, Exp::Is(Val::N));
                b.push(f("offset2"), Class::Len, 92, 0, Exp::Is(Val::N));
                b.push(f("increment2"), Class::Len, 92, 0, Exp::Is(Val::N));
            }
            must(92)
        }
        17 => {
            b.lonlat18(40);
            let st = if nbits >= 120 {
                b.uint(f("payload.message_type"), 80, 6);
                b.uint(f("payload.station_id"), 86, 10);
                b.uint(f("payload.z_count"), 96, 13);
                b.uint(f("payload.sequence_number"), 109, 3);
                b.uint(f("payload.n"), 112, 5);
                b.uint(f("payload.health"), 117, 3);
                let d = p[15..].to_vec();
                noalloc_may_err = d.len() > NOALLOC_BIN_CAP;
                b.push(f("payload.data"), Class::Bin, 120, nbits - 120, Exp::Is(Val::Y(d)));
                Status::MustOk
            } else if nbits >= 80 {
                for s in b.out.iter_mut() {
                    s.if_reported = true;
                }
                Status::Either("U5: type 17 without a complete correction header")
            } else {
                Status::MustErr("shorter than the mandatory part of its type")
            };
            st
        }
        18 => {
            b.scaled(f("speed_over_ground"), 46, 10, 10.0, Some(1023));
            b.enumf(f("position_accuracy"), 56, 1, e_plain);
            b.lonlat28(57);
            b.scaled(f("course_over_ground"), 112, 12, 10.0, Some(3600));
            b.opt_u(f("true_heading"), 124, 9, 511);
            b.uint(f("timestamp"), 133, 6);
            b.enumf(f("cs_unit"), 141, 1, e_plain);
            b.flag(f("has_display"), 142);
            b.flag(f("has_dsc"), 143);
            b.flag(f("whole_band"), 144);
            b.flag(f("accepts_message_22"), 145);
            b.enumf(f("assigned_mode"), 146, 1, e_plain);
            b.flag(f("raim"), 147);
            match get_bits(p, 148, 1) {
                Some(0) => b.sotdma(149),
                Some(_) => b.itdma(149),
                None => {}
            }
            must(168)
        }
        19 => {
            b.scaled(f("speed_over_ground"), 46, 10, 10.0, Some(1023));
            b.enumf(f("position_accuracy"), 56, 1, e_plain);
            b.lonlat28(57);
            b.scaled(f("course_over_ground"), 112, 12, 10.0, Some(3600));
            b.opt_u(f("true_heading"), 124, 9, 511);
            b.uint(f("timestamp"), 133, 6);
            b.text(f("name"), 143, 20);
            b.enumf(f("type_of_ship_and_cargo"), 263, 8, e_ship);
            b.dims(271);
            b.enumf(f("epfd_type"), 301, 4, e_epfd);
            b.flag(f("raim"), 305);
            b.enumf(f("dte"), 306, 1, e_plain);
            b.enumf(f("assigned_mode"), 307, 1, e_plain);
            must(308)
        }
        20 => {
            if nbits >= 70 {
                let n = ((nbits - 40) / 30).min(4);
                b.push(f("reservations.len"), Class::Len, 40, 30 * n, Exp::Is(Val::U(n as u64)));
                for i in 0..n {
                    b.uint(fi("reservations[#].offset", i), 40 + 30 * i, 12);
                    b.uint(fi("reservations[#].num_slots", i), 52 + 30 * i, 4);
                    b.uint(fi("reservations[#].timeout", i), 56 + 30 * i, 3);
                    b.uint(fi("reservations[#].increment", i), 59 + 30 * i, 11);
                }
            }
            must(70)
        }
        21 => {
            b.enumf(f("aid_type"), 38, 5, e_navaid);
            b.text(f("name"), 43, 20);
            b.enumf(f("accuracy"), 163, 1, e_plain);
            b.lonlat28(164);
            b.dims(219);
            b.enumf(f("epfd_type"), 249, 4, e_epfd);
            b.uint(f("utc_second"), 253, 6);
            b.flag(f("off_position"), 259);
            b.uint(f("regional_reserved"), 260, 8);
            b.flag(f("raim"), 268);
            b.flag(f("virtual_aid"), 269);
            b.flag(f("assigned_mode"), 270);
            must(271)
        }
        24 => match get_bits(p, 38, 2) {
            None => Status::MustErr("shorter than the mandatory part of its type"),
            Some(part) => {
                b.enumf(f("part"), 38, 2, e_part);
                match part {
                    0 => {
                        b.text(f("vessel_name"), 40, 20);
                        must(160)
                    }
                    1 => {
                        b.enumf(f("ship_type"), 40, 8, e_ship);
                        b.text(f("vendor_id"), 48, 3);
                        b.text(f("model_serial"), 66, 4);
                        b.uint(f("unit_model_code"), 66, 4);
                        b.uint(f("serial_number"), 70, 20);
                        b.text(f("callsign"), 90, 7);
                        b.dims(132);
                        must(162)
                    }
                    _ => must(40),
                }
            }
        },
        27 => {
            b.enumf(f("position_accuracy"), 38, 1, e_plain);
            b.flag(f("raim"), 39);
            b.enumf(f("navigation_status"), 40, 4, e_nav_status);
            b.lonlat18(44);
            b.scaled(f("speed_over_ground"), 79, 6, 1.0, Some(63));
            b.scaled(f("course_over_ground"), 85, 9, 1.0, Some(511));
            b.flag(f("gnss_position_status"), 94);
            must(95)
        }
        _ => unreachable!(),
    };
    Expectation {
        status,
        mtype: t,
        variant,
        fields: b.out,
        noalloc_may_err,
    }
}

// ---------------------------------------------------------------------------------------------
// comparison

#[inline]
pub fn approx_ok(got: f32, exact: f64) -> bool {
    if !got.is_finite() {
        return false;
    }
    let g = got as f64;
    if exact == 0.0 {
        return g == 0.0;
    }
    (g - exact).abs() <= exact.abs() * (1.0 / 4194304.0) // 2^-22
}

pub fn matches(exp: &Exp, got: &Val) -> bool {
    match exp {
        Exp::Any => true,
        Exp::Is(v) => v == got,
        Exp::OneOf(vs) => vs.iter().any(|v| v == got),
        Exp::Approx(e) => match got {
            Val::F(g) => approx_ok(*g, *e),
            _ => false,
        },
    }
}

pub fn exp_show(e: &Exp) -> String {
    match e {
        Exp::Any => "<any>".into(),
        Exp::Is(v) => v.show(),
        Exp::OneOf(vs) => format!("one of [{}]", vs.iter().map(|v| v.show()).collect::<Vec<_>>().join(", ")),
        Exp::Approx(x) => format!("{:?} (f32, within 2 ulp)", x),
    }
}

/// A field mismatch: which field, which clause.
#[derive(Clone, Debug)]
pub struct Mismatch {
    pub id: Fid,
    pub class: Class,
    /// "value" | "presence" | "missing" | "unexpected"
    pub clause: &'static str,
    pub expected: String,
    pub observed: String,
}

/// Compare the implementation's fields with the expectation. Fields the implementation reports but
/// the reference does not know are flagged as "unexpected" (class Len) — the canonical form and the
/// tables must enumerate the same field set.
pub fn compare(exp: &Expectation, got: &[(Fid, Val)], out: &mut Vec<Mismatch>) {
    out.clear();
    let mut hint = 0usize;
    for sf in &exp.fields {
        // both lists are in layout order: look at the expected position first
        let found = if hint < got.len() && got[hint].0 == sf.id {
            Some(hint)
        } else if hint + 1 < got.len() && got[hint + 1].0 == sf.id {
            Some(hint + 1)
        } else {
            got.iter().position(|(id, _)| *id == sf.id)
        };
        if let Some(p) = found {
            hint = p + 1;
        }
        match found.map(|p| &got[p]) {
            None => {
                if !sf.if_reported {
                    out.push(Mismatch {
                        id: sf.id,
                        class: sf.class,
                        clause: "missing",
                        expected: exp_show(&sf.exp),
                        observed: "<field not reported>".into(),
                    });
                }
            }
            Some((_, v)) => {
                if !matches(&sf.exp, v) {
                    let presence = match (&sf.exp, v) {
                        (Exp::Is(Val::N), _) => true,
                        (_, Val::N) => true,
                        _ => false,
                    };
                    out.push(Mismatch {
                        id: sf.id,
                        class: sf.class,
                        clause: if presence { "presence" } else { "value" },
                        expected: exp_show(&sf.exp),
                        observed: v.show(),
                    });
                    // "not available" reported as a present value that is not even raw/div: the
                    // scaling itself is wrong too (C10)
                    if let (Some(fv), Val::F(g)) = (sf.formula, v) {
                        if !approx_ok(*g, fv) {
                            out.push(Mismatch {
                                id: sf.id,
                                class: sf.class,
                                clause: "value",
                                expected: format!("None (and in no case {:?}: the scaling formula gives {:?})", g, fv),
                                observed: v.show(),
                            });
                        }
                    }
                }
            }
        }
    }
    if exp.status == Status::MustOk {
        for (id, v) in got {
            if id.0 == "variant" {
                continue;
            }
            if !exp.fields.iter().any(|sf| sf.id == *id) {
                out.push(Mismatch {
                    id: *id,
                    class: if id.0.starts_with("radio.") { Class::Radio } else { Class::Len },
                    clause: "unexpected",
                    expected: "<no such field at this length>".into(),
                    observed: v.show(),
                });
            }
        }
    }
}
