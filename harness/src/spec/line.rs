//! C02/C07/C08/C19 reference: sentence recogniser and field extractor, a hand-written scanner
//! implementing the C08 statement literally.
//!
//! line   := [ '\' <bytes != '\'>* '\' ] ('!'|'$') body '*' hex+ <anything>
//! body   := a a  a a a ',' num ',' num ',' [num] ',' chan ',' payload ',' fill
//! num    := digit+ with value <= 255 (leading zeros allowed)      fill := num with value < 6
//! chan   := <bytes != ','>*                                       payload := <bytes != ','>+
//! hex+   := run of [0-9a-fA-F]; if longer than 8 only the first 8 are the value; value <= 0xFF

#[derive(Clone, Debug, PartialEq, Eq)]
pub struct Parsed<'a> {
    pub talker: [u8; 2],
    pub rtype: [u8; 3],
    pub n: u8,
    pub k: u8,
    pub id: Option<u8>,
    pub chan: &'a [u8],
    pub payload: &'a [u8],
    pub fill: u8,
    /// value of the hex field after the structural '*'
    pub transmitted: u8,
    /// XOR of the bytes strictly between the start delimiter and the FIRST '*'
    pub xor: u8,
    /// a '*' occurs inside the address, channel or payload field (unjudged zone U1)
    pub embedded_star: bool,
}

impl<'a> Parsed<'a> {
    pub fn checksum_ok(&self) -> bool {
        self.xor == self.transmitted
    }
    pub fn talker_name(&self) -> &'static str {
        match &self.talker {
            b"AB" => "AB",
            b"AD" => "AD",
            b"AI" => "AI",
            b"AN" => "AN",
            b"AR" => "AR",
            b"AS" => "AS",
            b"AT" => "AT",
            b"AX" => "AX",
            b"BS" => "BS",
            b"SA" => "SA",
            _ => "??",
        }
    }
    pub fn report_name(&self) -> &'static str {
        match &self.rtype {
            b"VDM" => "VDM",
            b"VDO" => "VDO",
            _ => "???",
        }
    }
    /// optional channel: first byte of the channel field, as a character
    pub fn chan_char(&self) -> Option<char> {
        self.chan.first().map(|&b| b as char)
    }
}

/// digit+ with value <= 255; returns (value, rest). With `any_range` the value is not limited
/// (reported modulo 256): used only to recognise "the sole problem is a number out of range".
fn num_r(s: &[u8], any_range: bool) -> Option<(u8, &[u8])> {
    let nd = s.iter().take_while(|c| c.is_ascii_digit()).count();
    if nd == 0 {
        return None;
    }
    let mut v: u32 = 0;
    for &c in &s[..nd] {
        v = v.wrapping_mul(10).wrapping_add((c - b'0') as u32);
        if v > 255 && !any_range {
            return None;
        }
    }
    Some((v as u8, &s[nd..]))
}

fn comma(s: &[u8]) -> Option<&[u8]> {
    if s.first() == Some(&b',') {
        Some(&s[1..])
    } else {
        None
    }
}

/// bytes up to (not including) the next ','; None if there is no ','
fn until_comma(s: &[u8]) -> Option<(&[u8], &[u8])> {
    let p = s.iter().position(|&c| c == b',')?;
    Some((&s[..p], &s[p + 1..]))
}

/// `None` = the line does not have the sentence shape (must be rejected).
pub fn recognise(line: &[u8]) -> Option<Parsed<'_>> {
    recognise_with(line, true).map(|(p, _)| p)
}

/// The same scanner without the "value <= 0xFF" clause: returns the fields and the full value of
/// the (first eight) hex digits. Used to tell "accepted although the transmitted value differs from
/// the XOR" (C02) apart from other shape violations (C08).
pub fn recognise_wide_checksum(line: &[u8]) -> Option<(Parsed<'_>, u32)> {
    recognise_with(line, false)
}

/// Does the line have the sentence shape if numbers of ANY magnitude are allowed in the count,
/// number, sequence id and fill fields (and it does not have it otherwise)?
pub fn only_numeric_range_violated(line: &[u8]) -> bool {
    recognise_with(line, true).is_none() && recognise_full(line, true, true).is_some()
}

fn recognise_with(line: &[u8], limit_ff: bool) -> Option<(Parsed<'_>, u32)> {
    recognise_full(line, limit_ff, false)
}

fn recognise_full(line: &[u8], limit_ff: bool, any_range: bool) -> Option<(Parsed<'_>, u32)> {
    let num = |s| num_r(s, any_range);
    let mut s = line;
    // optional tag block
    if s.first() == Some(&b'\\') {
        let close = s[1..].iter().position(|&c| c == b'\\')?; // unterminated => reject
        s = &s[1 + close + 1..];
    }
    match s.first() {
        Some(b'!') | Some(b'$') => s = &s[1..],
        _ => return None,
    }
    let after_delim = s;
    // there must be a '*' somewhere after the delimiter
    let first_star = after_delim.iter().position(|&c| c == b'*')?;
    if s.len() < 5 {
        return None;
    }
    let talker = [s[0], s[1]];
    let rtype = [s[2], s[3], s[4]];
    s = &s[5..];
    s = comma(s)?;
    let (n, r) = num(s)?;
    s = comma(r)?;
    let (k, r) = num(s)?;
    s = comma(r)?;
    // optional sequence id
    let id = match num(s) {
        Some((v, r)) => {
            s = r;
            Some(v)
        }
        None => None,
    };
    s = comma(s)?;
    let (chan, r) = until_comma(s)?;
    s = r;
    let (payload, r) = until_comma(s)?;
    s = r;
    if payload.is_empty() {
        return None;
    }
    let (fill, r) = num(s)?;
    if fill >= 6 && !any_range {
        return None;
    }
    s = r;
    if s.first() != Some(&b'*') {
        return None;
    }
    let star_pos = after_delim.len() - s.len();
    s = &s[1..];
    let nh = s.iter().take_while(|c| c.is_ascii_hexdigit()).count();
    if nh == 0 {
        return None;
    }
    let mut v: u64 = 0;
    for &c in &s[..nh.min(8)] {
        v = v * 16 + (c as char).to_digit(16).unwrap() as u64;
    }
    if v > 0xff && limit_ff {
        return None;
    }
    let xor = after_delim[..first_star].iter().fold(0u8, |a, &b| a ^ b);
    Some((Parsed {
        talker,
        rtype,
        n,
        k,
        id,
        chan,
        payload,
        fill,
        transmitted: v as u8,
        xor,
        embedded_star: first_star != star_pos,
    }, v as u32))
}

/// Ingredients of a sentence; `render` produces the line with a correct (or chosen) checksum.
#[derive(Clone, Debug)]
pub struct Mk {
    pub tag: Option<Vec<u8>>,
    pub delim: u8,
    pub addr: Vec<u8>,
    pub n: Vec<u8>,
    pub k: Vec<u8>,
    pub id: Vec<u8>,
    pub chan: Vec<u8>,
    pub payload: Vec<u8>,
    pub fill: Vec<u8>,
}

impl Mk {
    pub fn new(n: u32, k: u32, id: &[u8], payload: &[u8], fill: u8) -> Mk {
        Mk {
            tag: None,
            delim: b'!',
            addr: b"AIVDM".to_vec(),
            n: n.to_string().into_bytes(),
            k: k.to_string().into_bytes(),
            id: id.to_vec(),
            chan: b"A".to_vec(),
            payload: payload.to_vec(),
            fill: vec![b'0' + fill],
        }
    }
    pub fn body(&self) -> Vec<u8> {
        let mut b = Vec::with_capacity(32 + self.payload.len());
        b.extend_from_slice(&self.addr);
        for f in [&self.n, &self.k, &self.id, &self.chan, &self.payload, &self.fill] {
            b.push(b',');
            b.extend_from_slice(f);
        }
        b
    }
    /// line with the checksum computed over the body
    pub fn render(&self) -> Vec<u8> {
        let body = self.body();
        let x = body.iter().fold(0u8, |a, &b| a ^ b);
        self.render_with(format!("*{:02X}", x).as_bytes())
    }
    /// line with a caller-chosen tail (everything from '*' on)
    pub fn render_with(&self, tail: &[u8]) -> Vec<u8> {
        let mut l = Vec::new();
        if let Some(t) = &self.tag {
            l.push(b'\\');
            l.extend_from_slice(t);
            l.push(b'\\');
        }
        l.push(self.delim);
        l.extend_from_slice(&self.body());
        l.extend_from_slice(tail);
        l
    }
    pub fn xor(&self) -> u8 {
        self.body().iter().fold(0u8, |a, &b| a ^ b)
    }
}

/// Convenience: a valid single-line sentence around `payload`.
pub fn sentence(n: u32, k: u32, id: &[u8], payload: &[u8], fill: u8) -> Vec<u8> {
    Mk::new(n, k, id, payload, fill).render()
}

/// Value of the run of hex digits (first eight) right after the FIRST '*' that follows the start
/// delimiter, if there is one.
pub fn hex_after_first_star(line: &[u8]) -> Option<u32> {
    let mut s = line;
    if s.first() == Some(&b'\\') {
        let close = s[1..].iter().position(|&c| c == b'\\')?;
        s = &s[1 + close + 1..];
    }
    if !matches!(s.first(), Some(b'!') | Some(b'$')) {
        return None;
    }
    let star = s.iter().position(|&c| c == b'*')?;
    let t = &s[star + 1..];
    let nh = t.iter().take_while(|c| c.is_ascii_hexdigit()).count();
    if nh == 0 {
        return None;
    }
    let mut v: u64 = 0;
    for &c in &t[..nh.min(8)] {
        v = v * 16 + (c as char).to_digit(16).unwrap() as u64;
    }
    Some(v as u32)
}

/// C02's relation read on an arbitrary line: after an optional well-formed tag block and a start
/// delimiter there is a '*', it is followed by hex digits, and their value (first eight) equals the
/// XOR of the bytes between the delimiter and that first '*'.
pub fn checksum_relation_holds(line: &[u8]) -> bool {
    let mut s = line;
    if s.first() == Some(&b'\\') {
        match s[1..].iter().position(|&c| c == b'\\') {
            Some(close) => s = &s[1 + close + 1..],
            None => return false,
        }
    }
    if !matches!(s.first(), Some(b'!') | Some(b'$')) {
        return false;
    }
    let body = &s[1..];
    let star = match body.iter().position(|&c| c == b'*') {
        Some(p) => p,
        None => return false,
    };
    let x = body[..star].iter().fold(0u8, |a, &b| a ^ b);
    match hex_after_first_star(line) {
        Some(v) => v == x as u32,
        None => false,
    }
}
