//! Reference models ("the oracles"), written from the property statements and ITU-R M.1371,
//! independently of the crate under test (no nom, plain table-driven Rust).
pub mod asm;
pub mod line;
pub mod msg;
pub mod unarmor;
