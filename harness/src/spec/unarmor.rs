//! C03 reference: exact 6-bit unpacking with the fill bits cleared.

/// 6-bit value of an armoring character, or None if the byte is outside the alphabet.
#[inline]
pub fn sixbit(c: u8) -> Option<u8> {
    match c {
        b'0'..=b'W' => Some(c - b'0'),       // 0..=39
        b'`'..=b'w' => Some(c - b'`' + 40),  // 40..=63
        _ => None,
    }
}

/// Inverse of `sixbit`.
#[inline]
pub fn armor_char(v: u8) -> u8 {
    debug_assert!(v < 64);
    if v < 40 {
        v + b'0'
    } else {
        v - 40 + b'`'
    }
}

/// `None` = must be an error. Otherwise exactly ceil(6n/8) bytes: the concatenated 6-bit values
/// MSB first, the last `fill` of the 6n bits and everything beyond 6n forced to zero.
pub fn unarmor_ref(s: &[u8], fill: usize) -> Option<Vec<u8>> {
    let n = s.len();
    let nbits = 6 * n;
    let mut out = vec![0u8; nbits.div_ceil(8)];
    for (i, &c) in s.iter().enumerate() {
        let v = sixbit(c)?;
        for b in 0..6 {
            let pos = 6 * i + b;
            if pos + fill >= nbits {
                continue; // one of the last `fill` bits: forced to zero
            }
            if (v >> (5 - b)) & 1 == 1 {
                out[pos / 8] |= 0x80 >> (pos % 8);
            }
        }
    }
    Some(out)
}

/// Armor a bit string of `nbits` bits (taken MSB-first from `bytes`) into ceil(nbits/6) characters;
/// the 6·ceil(nbits/6) − nbits padding positions are set to `pad` (0 or 1). Returns (chars, fill).
pub fn armor_bits(bytes: &[u8], nbits: usize, pad: u8) -> (Vec<u8>, u8) {
    let nchars = nbits.div_ceil(6);
    let fill = (nchars * 6 - nbits) as u8;
    let mut out = Vec::with_capacity(nchars);
    for i in 0..nchars {
        let mut v = 0u8;
        for b in 0..6 {
            let pos = 6 * i + b;
            let bit = if pos < nbits {
                (bytes[pos / 8] >> (7 - pos % 8)) & 1
            } else {
                pad
            };
            v = (v << 1) | bit;
        }
        out.push(armor_char(v));
    }
    (out, fill)
}
