#![allow(dead_code)]
//! aisverif — bounded exhaustive exploration of squidpickles/ais against reference models.
//! See /verif/DESIGN.md. One library + binary, built three times (features std / alloc / none).
pub mod canon;
pub mod explore;
pub mod json;
pub mod par;
pub mod props;
pub mod spec;
pub mod subj;


#[derive(Clone, Copy, PartialEq, Eq, Debug)]
pub enum Tier {
    Quick,
    Thorough,
}

pub fn tier_of(s: &str) -> Tier {
    match s {
        "quick" => Tier::Quick,
        "thorough" => Tier::Thorough,
        _ => {
            eprintln!("unknown tier {}", s);
            std::process::exit(2)
        }
    }
}


/// Re-execute one recorded case without any explorer. Returns the signatures it violates.
pub fn replay_case(prop: &str, tier: Tier, space: &str, index: u64) -> Result<Vec<String>, String> {
    par::install_panic_hook();
    let sp = props::spaces(prop, tier)
        .into_iter()
        .find(|s| s.name == space)
        .ok_or_else(|| format!("no space {} in {} {:?}", space, prop, tier))?;
    if index >= sp.size {
        return Err(format!("index {} out of range (size {})", index, sp.size));
    }
    let l = par::run_one(&sp, index);
    Ok(l.viols.keys().cloned().collect())
}
