//! Explicit-state exploration of the REAL reassembly state machine (`AisParser`).
//!
//! Breadth-first search from the fresh parser over a finite line alphabet. A state is identified by
//! (Debug rendering of the real parser — it prints all private fields — , reference monitor state);
//! `AisParser` is not `Clone`, so every transition is executed on a fresh parser re-driven along the
//! state's shortest witness history. The search runs to closure (or to a stated cap).
use crate::canon::{ErrCat, Out, Sent};
use crate::json::{esc_bytes, hex, J};
use crate::spec::asm::{self, DecodeExp, Expect, MState};
use crate::spec::line::recognise;
use crate::subj::{self, Parser};
use std::collections::{BTreeMap, HashMap, VecDeque};

#[derive(Clone, Debug)]
pub struct Letter {
    pub name: String,
    pub line: Vec<u8>,
    pub decode: bool,
    /// member of the small core alphabet used for behavioural state comparison
    pub core: bool,
}

impl Letter {
    pub fn new(name: &str, line: Vec<u8>, decode: bool) -> Letter {
        Letter {
            name: name.to_string(),
            line,
            decode,
            core: false,
        }
    }
    pub fn core(mut self) -> Letter {
        self.core = true;
        self
    }
}

/// Do the parser states reached by `ha` and `hb` behave differently? Every single letter of the
/// alphabet and every sequence of 2 and 3 letters of the core alphabet is executed from both; the
/// first continuation with different results is returned.
pub fn behaviour_differs(letters: &[Letter], ha: &[usize], hb: &[usize]) -> Option<Vec<usize>> {
    let all: Vec<usize> = (0..letters.len()).collect();
    let core: Vec<usize> = (0..letters.len()).filter(|&i| letters[i].core).collect();
    let run = |h: &[usize], cont: &[usize]| -> Vec<u64> {
        let mut p = Parser::new();
        for &a in h {
            let _ = p.parse(&letters[a].line, letters[a].decode);
        }
        cont.iter()
            .map(|&a| p.parse(&letters[a].line, letters[a].decode).digest())
            .collect()
    };
    // every single letter, and every sequence of 2 and 3 core letters
    let mut conts: Vec<Vec<usize>> = Vec::new();
    for &a in &all {
        conts.push(vec![a]);
    }
    for &a in &core {
        for &b in &core {
            conts.push(vec![a, b]);
            for &c in &core {
                conts.push(vec![a, b, c]);
            }
        }
    }
    conts.into_iter().find(|c| run(ha, c) != run(hb, c))
}

#[derive(Clone, Debug)]
pub struct EViolation {
    pub props: Vec<&'static str>,
    pub sig: String,
    pub history: Vec<usize>,
    pub detail: String,
    pub count: u64,
}

/// Compare a returned sentence with the fields read off the line by the recogniser.
fn own_fields_ok(s: &Sent, line: &[u8], data: &[u8]) -> Result<(), String> {
    let p = match recognise(line) {
        Some(p) => p,
        None => return Err("line not recognised".into()),
    };
    let mut bad = Vec::new();
    if s.talker != p.talker_name() {
        bad.push(format!("talker {} != {}", s.talker, p.talker_name()));
    }
    if s.rtype != p.report_name() {
        bad.push(format!("report type {} != {}", s.rtype, p.report_name()));
    }
    if s.n != p.n {
        bad.push(format!("num_fragments {} != {}", s.n, p.n));
    }
    if s.k != p.k {
        bad.push(format!("fragment_number {} != {}", s.k, p.k));
    }
    if s.id != p.id {
        bad.push(format!("message_id {:?} != {:?}", s.id, p.id));
    }
    if s.chan != p.chan_char() {
        bad.push(format!("channel {:?} != {:?}", s.chan, p.chan_char()));
    }
    if s.fill != p.fill {
        bad.push(format!("fill {} != {}", s.fill, p.fill));
    }
    if s.data != data {
        bad.push(format!(
            "data {:?} != {:?}",
            esc_bytes(&s.data[..s.data.len().min(80)]),
            esc_bytes(&data[..data.len().min(80)])
        ));
    }
    if bad.is_empty() {
        Ok(())
    } else {
        Err(bad.join("; "))
    }
}

/// Result of judging one transition: list of (properties it contradicts, signature, explanation).
pub type Findings = Vec<(Vec<&'static str>, String, String)>;

/// The step oracle: real outcome vs. monitor expectation, plus the no-trace clause.
pub fn judge_step(
    exp: &Expect,
    line: &[u8],
    decode: bool,
    out: &Out,
    debug_before: &str,
    debug_after: &str,
    f: &mut Findings,
) {
    let unchanged = debug_before == debug_after;
    if let Out::Panic(p) = out {
        f.push((
            vec!["C01", "C02", "C05", "C06", "C08", "C17"],
            "asm.panic".into(),
            format!("panic: {}", p),
        ));
        return;
    }
    let own_payload = || recognise(line).map(|p| p.payload.to_vec()).unwrap_or_default();
    let decode_ok = |d: &DecodeExp, s: &Sent, f: &mut Findings, tag: &str| match d {
        DecodeExp::NotRequested => {
            if s.msg.is_some() {
                f.push((vec!["C07"], format!("{}.message-without-decode", tag), "decoding was not requested but a message is present".into()));
            }
        }
        DecodeExp::MustFail => {
            f.push((vec!["C14", "C09"], format!("{}.decodes-undecodable", tag), "the payload cannot be decoded but a result was returned".into()));
        }
        DecodeExp::MustSucceed | DecodeExp::Either => {
            if s.msg.is_none() {
                f.push((vec!["C07"], format!("{}.no-message", tag), "decoding was requested but the message is absent".into()));
            }
        }
    };
    match exp {
        Expect::RejectForm => {
            match out {
                Out::Err(ErrCat::Nmea(_)) => {}
                // The statements do not fix the error category of a malformed line (an implementation
                // may verify the checksum before the fields). What C02 does say: a line whose two
                // values AGREE is never rejected with a checksum error.
                Out::Err(ErrCat::Checksum { .. }) => {
                    if crate::spec::line::checksum_relation_holds(line) {
                        f.push((
                            vec!["C02"],
                            "asm.checksum-error-although-values-agree".into(),
                            "a (malformed) line whose transmitted value equals the XOR was rejected with a CHECKSUM error".into(),
                        ))
                    }
                }
                _ => {
                    // accepted although no hexadecimal value equal to the XOR follows the first '*'
                    // (no '*' at all, no hex digits, or a different / too large value): also C02
                    let wide = !crate::spec::line::checksum_relation_holds(line);
                    // accepted although a count / number / id / fill is out of range: whatever value
                    // the sentence then reports for it was not transmitted (C07)
                    let range = crate::spec::line::only_numeric_range_violated(line);
                    f.push((
                        match (wide, range) {
                            (true, true) => vec!["C08", "C02", "C07"],
                            (true, false) => vec!["C08", "C02"],
                            (false, true) => vec!["C08", "C07"],
                            (false, false) => vec!["C08"],
                        },
                        "asm.accepts-malformed".into(),
                        format!("a line without the sentence shape was accepted: {}", out.show()),
                    ))
                }
            }
            if out.is_ok() || !unchanged {
                if !unchanged {
                    f.push((vec!["C17"], "asm.trace-after-reject".into(), format!("parser state changed by a malformed line: {} -> {}", debug_before, debug_after)));
                }
            }
        }
        Expect::RejectChecksum { transmitted, computed } => {
            match out {
                Out::Err(ErrCat::Checksum { expected, found })
                    if expected == transmitted && found == computed => {}
                Out::Err(ErrCat::Checksum { expected, found }) => f.push((
                    vec!["C02"],
                    "asm.checksum-values".into(),
                    format!(
                        "checksum error carries (expected={:#04x}, found={:#04x}), transmitted={:#04x} computed={:#04x}",
                        expected, found, transmitted, computed
                    ),
                )),
                Out::Err(_) => f.push((
                    vec!["C02"],
                    "asm.checksum-not-reported".into(),
                    "well-formed line with a wrong checksum rejected with a non-checksum error".into(),
                )),
                _ => f.push((
                    vec!["C02", "C08"],
                    "asm.accepts-bad-checksum".into(),
                    format!("a line with a wrong checksum was accepted: {}", out.show()),
                )),
            }
            if !unchanged {
                f.push((vec!["C17", "C02"], "asm.trace-after-reject".into(), format!("parser state changed by a bad-checksum line: {} -> {}", debug_before, debug_after)));
            }
        }
        Expect::Unfrag { decode } => {
            match out {
                Out::Complete(s) => {
                    if let Err(e) = own_fields_ok(s, line, &own_payload()) {
                        f.push((vec!["C05", "C07"], "asm.unfragmented-fields".into(), e));
                    }
                    decode_ok(decode, s, f, "asm.unfragmented");
                }
                Out::Incomplete(_) => f.push((
                    vec!["C05"],
                    "asm.unfragmented-incomplete".into(),
                    "an unfragmented sentence yielded Incomplete".into(),
                )),
                Out::Err(e) => {
                    let acceptable = matches!(decode, DecodeExp::MustFail | DecodeExp::Either) && !e.is_checksum();
                    if !acceptable {
                        // with decoding off no payload-level error may be raised: also C07
                        let mut props = if matches!(decode, DecodeExp::NotRequested) { vec!["C05", "C08", "C07"] } else { vec!["C05", "C08"] };
                        if e.is_checksum() {
                            props.push("C02"); // the two values agree, yet a checksum error
                        }
                        f.push((
                            props,
                            "asm.unfragmented-rejected".into(),
                            format!("a valid unfragmented sentence was rejected: {}", e.show()),
                        ));
                    }
                }
                Out::Panic(_) => {}
            }
            if !unchanged {
                f.push((vec!["C17"], "asm.trace-after-unfragmented".into(), format!("parser state changed by an unfragmented sentence: {} -> {}", debug_before, debug_after)));
            }
        }
        Expect::Incomplete => match out {
            Out::Incomplete(s) => {
                if let Err(e) = own_fields_ok(s, line, &own_payload()) {
                    f.push((vec!["C05", "C07"], "asm.incomplete-fields".into(), e));
                }
                if s.msg.is_some() {
                    f.push((vec!["C05"], "asm.incomplete-with-message".into(), "an Incomplete result carries a decoded message".into()));
                }
            }
            Out::Complete(_) => f.push((
                vec!["C05", "C06"],
                "asm.complete-too-early".into(),
                "a non-final fragment yielded Complete".into(),
            )),
            Out::Err(e) => f.push((
                if e.is_checksum() { vec!["C05", "C02"] } else { vec!["C05"] },
                "asm.rejects-good-fragment".into(),
                format!("a fragment that opens / directly continues the open group was rejected: {}", e.show()),
            )),
            Out::Panic(_) => {}
        },
        Expect::Deliver { payload, decode } => match out {
            Out::Complete(s) => {
                if s.data != *payload {
                    f.push((
                        vec!["C05", "C06", "C07"],
                        "asm.wrong-payload".into(),
                        format!(
                            "delivered payload {:?} is not the in-order concatenation {:?}",
                            esc_bytes(&s.data[..s.data.len().min(120)]),
                            esc_bytes(&payload[..payload.len().min(120)])
                        ),
                    ));
                } else if let Err(e) = own_fields_ok(s, line, payload) {
                    f.push((vec!["C05", "C07"], "asm.complete-fields".into(), e));
                }
                decode_ok(decode, s, f, "asm.deliver");
            }
            Out::Incomplete(_) => f.push((
                vec!["C05"],
                "asm.last-fragment-incomplete".into(),
                "the last fragment of an in-order group yielded Incomplete".into(),
            )),
            Out::Err(e) => {
                let acceptable = matches!(decode, DecodeExp::MustFail | DecodeExp::Either) && !e.is_checksum();
                if !acceptable {
                    let mut props = if matches!(decode, DecodeExp::NotRequested) { vec!["C05", "C07"] } else { vec!["C05"] };
                    if e.is_checksum() {
                        props.push("C02");
                    }
                    f.push((
                        props,
                        "asm.rejects-good-fragment".into(),
                        format!("the last fragment of an in-order group was rejected: {}", e.show()),
                    ));
                }
            }
            Out::Panic(_) => {}
        },
        Expect::RejectSequence => {
            match out {
                Out::Err(ErrCat::Nmea(_)) => {}
                Out::Err(e) => f.push((
                    vec!["C06", "C02"],
                    "asm.checksum-error-for-sequencing".into(),
                    format!("out-of-sequence fragment with a correct checksum rejected with {}", e.show()),
                )),
                _ => f.push((
                    vec!["C06"],
                    "asm.accepts-bad-continuation".into(),
                    format!("a fragment that does not continue an open group was accepted: {}", out.show()),
                )),
            }
            if !unchanged {
                f.push((vec!["C17", "C06"], "asm.trace-after-reject".into(), format!("parser state changed by an out-of-sequence fragment: {} -> {}", debug_before, debug_after)));
            }
        }
        Expect::RejectCapacity => {
            if out.is_ok() {
                f.push((
                    vec!["C18"],
                    "asm.capacity-not-enforced".into(),
                    format!("input exceeding the fixed capacity was accepted: {}", out.show()),
                ));
            }
        }
        Expect::EmbeddedStar { xor_first, transmitted_structural, transmitted_after_first } => {
            match out {
                Out::Complete(_) | Out::Incomplete(_) => {
                    let ok = xor_first == transmitted_structural || Some(*xor_first as u32) == *transmitted_after_first;
                    if !ok {
                        f.push((
                            vec!["C02"],
                            "asm.accepts-bad-checksum-embedded-star".into(),
                            format!(
                                "accepted although the XOR of the bytes up to the first '*' ({:#04x}) equals neither the value after the checksum delimiter ({:#04x}) nor the value after the first '*' ({:?})",
                                xor_first, transmitted_structural, transmitted_after_first
                            ),
                        ));
                    }
                }
                Out::Err(ErrCat::Checksum { found, .. }) => {
                    if found != xor_first {
                        f.push((
                            vec!["C02"],
                            "asm.checksum-values-embedded-star".into(),
                            format!("checksum error reports computed value {:#04x}, but the XOR up to the first '*' is {:#04x}", found, xor_first),
                        ));
                    }
                }
                _ => {}
            }
            if matches!(out, Out::Err(_)) && !unchanged {
                f.push((vec!["C17"], "asm.trace-after-reject".into(), format!("parser state changed by a rejected line: {} -> {}", debug_before, debug_after)));
            }
        }
        Expect::Unjudged(_) => {
            // an error from DECODING a (possibly accepted) final fragment legitimately closes a group
            let maybe_decode_error = decode
                && recognise(line).map(|p| p.k >= p.n && p.n != 1).unwrap_or(false);
            if matches!(out, Out::Err(_)) && !unchanged && !maybe_decode_error {
                f.push((vec!["C17"], "asm.trace-after-reject".into(), format!("parser state changed by a rejected line: {} -> {}", debug_before, debug_after)));
            }
        }
    }
}

/// Probe continuations used to decide whether two parser states BEHAVE differently (C17 speaks about
/// results, not representation). Static part: short groups with the ids the alphabets use; dynamic
/// part: the fragments around the open group's next expected number, as continuation and as final
/// fragment.
pub fn probe_set(m: &MState) -> Vec<Vec<(Vec<u8>, bool)>> {
    use crate::spec::line::sentence;
    let mut v: Vec<Vec<(Vec<u8>, bool)>> = Vec::new();
    let ids: [&[u8]; 4] = [b"", b"5", b"0", b"3"];
    for id in ids {
        v.push(vec![(sentence(2, 2, id, b"pq", 0), false)]);
        v.push(vec![(sentence(3, 2, id, b"pr", 0), false), (sentence(3, 3, id, b"ps", 0), false)]);
        v.push(vec![(sentence(3, 3, id, b"pt", 0), false)]);
        v.push(vec![
            (sentence(2, 1, id, b"pu", 0), false),
            (sentence(2, 2, id, b"pv", 0), false),
        ]);
    }
    v.push(vec![(sentence(1, 1, b"", b"1000000000000000000000000000", 0), true)]);
    if let MState::Open { id, last_k, .. } = m {
        let idb: Vec<u8> = match id {
            None => vec![],
            Some(x) => x.to_string().into_bytes(),
        };
        for dk in [0u32, 1, 2] {
            let k = *last_k as u32 + dk;
            if k == 0 || k > 255 {
                continue;
            }
            // as the final fragment of a group of k, and as a middle fragment followed by the final one
            v.push(vec![(sentence(k.max(2), k, &idb, b"pw", 0), false)]);
            if k < 255 {
                v.push(vec![
                    (sentence(255, k, &idb, b"px", 0), false),
                    (sentence(k + 1, k + 1, &idb, b"py", 0), false),
                ]);
            }
        }
    }
    v
}

/// Replay `ha` and `hb` on fresh parsers and compare their results on every probe continuation.
pub fn states_differ(
    ha: &[(Vec<u8>, bool)],
    hb: &[(Vec<u8>, bool)],
    probes: &[Vec<(Vec<u8>, bool)>],
) -> Option<String> {
    let run = |h: &[(Vec<u8>, bool)], cont: &[(Vec<u8>, bool)]| -> Vec<u64> {
        let mut p = Parser::new();
        for (l, d) in h {
            let _ = p.parse(l, *d);
        }
        cont.iter().map(|(l, d)| p.parse(l, *d).digest()).collect()
    };
    for c in probes {
        if run(ha, c) != run(hb, c) {
            return Some(format!(
                "results differ for the continuation {:?}",
                c.iter().map(|(l, _)| esc_bytes(l)).collect::<Vec<_>>()
            ));
        }
    }
    None
}

pub static CONFIRM_SPENT_US: std::sync::atomic::AtomicU64 = std::sync::atomic::AtomicU64::new(0);
pub static CONFIRM_SKIPPED: std::sync::atomic::AtomicU64 = std::sync::atomic::AtomicU64::new(0);
/// cumulative (all threads) time allowed for behavioural confirmation per process
pub const CONFIRM_BUDGET_MS: u64 = 20_000;

/// A Debug difference after a no-trace line is not yet a verdict: keep the `asm.trace-*` findings
/// only if `differs()` exhibits a behavioural difference. Returns true if they were dropped.
pub fn confirm_traces(f: &mut Findings, differs: impl FnOnce() -> Option<String>) -> bool {
    if !f.iter().any(|(_, sig, _)| sig.starts_with("asm.trace-")) {
        return false;
    }
    // Budget: behavioural confirmation replays whole histories. If representation-only differences
    // occur on (almost) every line — e.g. a harmless per-line counter — confirming each one would
    // make the check run for hours. After CONFIRM_BUDGET_MS of cumulative confirmation time in this
    // process, unconfirmed Debug differences are counted (CONFIRM_SKIPPED) but no longer judged: a
    // Debug difference alone is never a verdict.
    if CONFIRM_SPENT_US.load(std::sync::atomic::Ordering::Relaxed) > CONFIRM_BUDGET_MS * 1000 {
        CONFIRM_SKIPPED.fetch_add(1, std::sync::atomic::Ordering::Relaxed);
        f.retain(|(_, sig, _)| !sig.starts_with("asm.trace-"));
        return true;
    }
    let t0 = std::time::Instant::now();
    let verdict = differs();
    CONFIRM_SPENT_US.fetch_add(t0.elapsed().as_micros() as u64, std::sync::atomic::Ordering::Relaxed);
    match verdict {
        Some(why) => {
            for (_, sig, w) in f.iter_mut() {
                if sig.starts_with("asm.trace-") {
                    w.push_str(" | ");
                    w.push_str(&why);
                }
            }
            false
        }
        None => {
            f.retain(|(_, sig, _)| !sig.starts_with("asm.trace-"));
            true
        }
    }
}

pub struct ExploreCfg {
    pub name: String,
    pub letters: Vec<Letter>,
    pub max_states: usize,
    pub max_depth: usize,
    /// wall-clock budget; if it is hit the report says "not closed" instead of claiming closure
    pub max_secs: u64,
}

pub struct ExploreReport {
    pub name: String,
    pub letters: usize,
    pub states: u64,
    pub transitions: u64,
    pub max_depth: usize,
    pub closed: bool,
    pub hist: BTreeMap<&'static str, u64>,
    pub deliveries_multi: u64,
    pub accepted: u64,
    pub violations: Vec<EViolation>,
    pub samples: Vec<J>,
    pub debug_variants: u64,
    pub stopped_by: &'static str,
    pub wall_s: f64,
}

/// Drive a fresh parser (and the monitor) along a history of letter indices.
fn drive(letters: &[Letter], hist: &[usize]) -> (Parser, MState) {
    let mut p = Parser::new();
    let mut m = MState::Closed;
    for &a in hist {
        let l = &letters[a];
        let (_, m2) = asm::step(&m, &l.line, l.decode, subj::NOALLOC);
        let _ = p.parse(&l.line, l.decode);
        m = m2;
    }
    (p, m)
}

pub fn explore(cfg: &ExploreCfg) -> ExploreReport {
    let t0 = std::time::Instant::now();
    let letters = &cfg.letters;
    let mut seen: HashMap<(String, MState), usize> = HashMap::new();
    let mut witness: Vec<Vec<usize>> = Vec::new();
    let mut queue: VecDeque<usize> = VecDeque::new();
    let mut rep = ExploreReport {
        name: cfg.name.clone(),
        letters: letters.len(),
        states: 0,
        transitions: 0,
        max_depth: 0,
        closed: true,
        hist: BTreeMap::new(),
        deliveries_multi: 0,
        accepted: 0,
        violations: Vec::new(),
        samples: Vec::new(),
        debug_variants: 0,
        stopped_by: "",
        wall_s: 0.0,
    };
    let mut viol: BTreeMap<String, EViolation> = BTreeMap::new();
    {
        let p = Parser::new();
        seen.insert((p.state(), MState::Closed), 0);
        witness.push(vec![]);
        queue.push_back(0);
    }
    let mut findings: Findings = Vec::new();
    let mut trace_cache: HashMap<(String, String), Option<Vec<usize>>> = HashMap::new();
    let deadline = t0 + std::time::Duration::from_secs(cfg.max_secs);
    while let Some(si) = queue.pop_front() {
        if std::time::Instant::now() > deadline {
            rep.closed = false;
            rep.stopped_by = "time budget";
            break;
        }
        let hist = witness[si].clone();
        if hist.len() > rep.max_depth {
            rep.max_depth = hist.len();
        }
        if hist.len() >= cfg.max_depth {
            rep.closed = false;
            rep.stopped_by = "depth cap";
            continue;
        }
        for (ai, l) in letters.iter().enumerate() {
            let (mut p, m) = drive(letters, &hist);
            let d0 = p.state();
            let (exp, m1) = asm::step(&m, &l.line, l.decode, subj::NOALLOC);
            let out = p.parse(&l.line, l.decode);
            let d1 = p.state();
            rep.transitions += 1;
            *rep.hist.entry(out.class()).or_insert(0) += 1;
            if out.is_ok() {
                rep.accepted += 1;
            }
            if let (Out::Complete(s), Expect::Deliver { .. }) = (&out, &exp) {
                if s.n >= 2 {
                    rep.deliveries_multi += 1;
                }
            }
            findings.clear();
            judge_step(&exp, &l.line, l.decode, &out, &d0, &d1, &mut findings);
            let mut full = hist.clone();
            full.push(ai);
            // A Debug difference after a no-trace line is not yet a verdict (C17 speaks about results,
            // not representation): compare the two states behaviourally.
            if findings.iter().any(|(_, sig, _)| sig.starts_with("asm.trace-")) {
                // the verdict depends only on the two parser states: cache it per (before, after)
                let key = (d0.clone(), d1.clone());
                let verdict = match trace_cache.get(&key) {
                    Some(v) => v.clone(),
                    None => {
                        let v = behaviour_differs(letters, &hist, &full);
                        trace_cache.insert(key, v.clone());
                        v
                    }
                };
                match verdict {
                    Some(cont) => {
                        for (_, sig, why) in findings.iter_mut() {
                            if sig.starts_with("asm.trace-") {
                                why.push_str(&format!(
                                    " | results differ for the continuation {:?}",
                                    cont.iter().map(|&a| esc_bytes(&letters[a].line)).collect::<Vec<_>>()
                                ));
                            }
                        }
                    }
                    None => {
                        findings.retain(|(_, sig, _)| !sig.starts_with("asm.trace-"));
                        rep.debug_variants += 1;
                    }
                }
            }
            let violated = !findings.is_empty();
            for (props, sig, why) in findings.drain(..) {
                match viol.get_mut(&sig) {
                    Some(v) => v.count += 1,
                    None => {
                        viol.insert(
                            sig.clone(),
                            EViolation {
                                props,
                                sig,
                                history: full.clone(),
                                detail: format!("{} | expectation {:?} | outcome {}", why, exp, out.show()),
                                count: 1,
                            },
                        );
                    }
                }
            }
            if rep.samples.len() < 6 && (rep.transitions % 97 == 1 || matches!(exp, Expect::Deliver { .. })) {
                rep.samples.push(J::obj(vec![
                    (
                        "history",
                        J::Arr(full.iter().map(|&a| J::s(esc_bytes(&letters[a].line))).collect()),
                    ),
                    ("expectation", J::s(format!("{:?}", exp))),
                    ("outcome", J::s(out.show())),
                    ("parser_after", J::s(&d1)),
                ]));
            }
            // do not explore beyond a violating transition: the monitor and the code have diverged
            if violated {
                continue;
            }
            let key = (d1, m1);
            if !seen.contains_key(&key) {
                if seen.len() >= cfg.max_states {
                    rep.closed = false;
                    rep.stopped_by = "state cap";
                    continue;
                }
                let id = witness.len();
                seen.insert(key, id);
                witness.push(full);
                queue.push_back(id);
            }
        }
    }
    rep.states = seen.len() as u64;
    rep.violations = viol.into_values().collect();
    rep.wall_s = t0.elapsed().as_secs_f64();
    rep
}

impl ExploreReport {
    pub fn to_json(&self, letters: &[Letter], prop: &str) -> J {
        let viols: Vec<J> = self
            .violations
            .iter()
            .filter(|v| v.props.contains(&prop))
            .map(|v| {
                J::obj(vec![
                    ("sig", J::s(&v.sig)),
                    ("space", J::s(&self.name)),
                    ("count", J::u(v.count)),
                    (
                        "history_hex",
                        J::Arr(v.history.iter().map(|&a| J::s(hex(&letters[a].line))).collect()),
                    ),
                    (
                        "decode",
                        J::Arr(v.history.iter().map(|&a| J::u(letters[a].decode as u64)).collect()),
                    ),
                    (
                        "detail",
                        J::obj(vec![
                            ("what", J::s(&v.detail)),
                            (
                                "history",
                                J::Arr(
                                    v.history
                                        .iter()
                                        .map(|&a| J::s(format!("{} [{}]", esc_bytes(&letters[a].line), letters[a].name)))
                                        .collect(),
                                ),
                            ),
                            ("build", J::s(subj::BUILD)),
                        ]),
                    ),
                ])
            })
            .collect();
        J::obj(vec![
            ("name", J::s(&self.name)),
            ("letters", J::u(self.letters as u64)),
            ("states", J::u(self.states)),
            ("transitions", J::u(self.transitions)),
            ("traces_validated_against_impl", J::u(self.transitions)),
            ("max_depth", J::u(self.max_depth as u64)),
            ("closed", J::Bool(self.closed)),
            ("stopped_by", J::s(self.stopped_by)),
            (
                "outcomes",
                J::Obj(self.hist.iter().map(|(k, v)| (k.to_string(), J::u(*v))).collect()),
            ),
            ("accepted_transitions", J::u(self.accepted)),
            ("multi_fragment_deliveries", J::u(self.deliveries_multi)),
            ("representation_only_differences", J::u(self.debug_variants)),
            ("wall_s", J::Num(self.wall_s)),
            ("violations", J::Arr(viols)),
            ("samples", J::Arr(self.samples.clone())),
        ])
    }
}
