#!/usr/bin/env python3
"""Apply each property-breaking patch to /repo's working tree, run the pinned test suite and the
relevant quick checks, record what was reported, and ALWAYS restore the tree.

  tools/run_mutants.py mutants            # own mutants (mutants/*.diff, INDEX.tsv)
  tools/run_mutants.py seeded             # sub-agent changes (seeded/<id>/patch.diff, meta.json)
  tools/run_mutants.py <patch.diff> C02 C08 ...   # one patch, given checks
Writes <dir>/RESULTS.md."""
import json, os, re, subprocess, sys, time
REPO, VERIF = "/repo", "/verif"

def sh(cmd, cwd=REPO, timeout=3600):
    p = subprocess.run(cmd, cwd=cwd, shell=isinstance(cmd, str), stdout=subprocess.PIPE, stderr=subprocess.STDOUT, text=True, timeout=timeout)
    return p.returncode, p.stdout

def clean():
    rc, o = sh("git status --porcelain -- src Cargo.toml")
    return o.strip() == ""

def run_patch(path, checks, tier="quick"):
    assert clean(), "/repo is not clean"
    res = dict(patch=path, applied=False, tests_pass=None, checks={})
    try:
        rc, o = sh(["git", "apply", path])
        if rc != 0:
            res["error"] = o[-500:]
            return res
        res["applied"] = True
        rc, o = sh("cargo test --offline 2>&1 | grep -E '^test result' | head -1")
        res["tests_pass"] = ("ok. 59 passed" in o)
        res["tests"] = o.strip()
        for c in checks:
            t0 = time.time()
            rc, o = sh([os.path.join(VERIF, "check"), c, "--tier", tier], cwd=VERIF)
            viol = re.findall(r"VIOLATION property=(\S+) replay=(\S+)", o)
            sigs = re.findall(r"^  sig=(\S+)", o, re.M)
            res["checks"][c] = dict(exit=rc, violations=len(viol), sigs=sigs[:6], wall=round(time.time() - t0, 1))
    finally:
        sh("git checkout -- .")
    return res

def main():
    a = sys.argv[1:]
    if not a:
        print(__doc__); return 2
    jobs = []
    if a[0] == "mutants":
        d = os.path.join(VERIF, "mutants")
        for line in open(os.path.join(d, "INDEX.tsv")):
            name, props = line.rstrip("\n").split("\t")
            checks = re.findall(r"C\d\d", props)
            jobs.append((name, os.path.join(d, name + ".diff"), checks or ["C02", "C08", "C07"], props))
        out = os.path.join(d, "RESULTS.md")
    elif a[0] == "seeded":
        d = os.path.join(VERIF, "seeded")
        only = a[1:]
        for name in sorted(os.listdir(d)):
            mp = os.path.join(d, name, "meta.json")
            if not os.path.exists(mp) or (only and name not in only):
                continue
            meta = json.load(open(mp))
            jobs.append((name, os.path.join(d, name, "patch.diff"), meta.get("checks_to_run", [meta["property"]]), meta["property"]))
        # a partial run must not overwrite the complete table
        out = os.path.join(d, "RESULTS.md") if not only else os.path.join(VERIF, "work", "RESULTS.partial.md")
    else:
        jobs.append((os.path.basename(a[0]), os.path.abspath(a[0]), a[1:], " ".join(a[1:])))
        out = None
    rows = []
    for name, path, checks, props in jobs:
        r = run_patch(path, checks)
        caught = [c for c, v in r["checks"].items() if v["exit"] == 1]
        broken = [c for c, v in r["checks"].items() if v["exit"] not in (0, 1)]
        print(f"{name}: applied={r['applied']} tests_pass={r['tests_pass']} caught_by={caught} machinery_errors={broken} "
              + " ".join(f"{c}:{v['sigs'][:2]}" for c, v in r["checks"].items()), flush=True)
        rows.append((name, props, r))
    if out:
        with open(out, "w") as f:
            f.write("| change | breaks | pinned tests pass | check: exit (first signatures) |\n|---|---|---|---|\n")
            for name, props, r in rows:
                cs = "; ".join(f"{c}: {v['exit']} {' '.join(v['sigs'][:3])}" for c, v in r["checks"].items())
                f.write(f"| {name} | {props} | {r['tests_pass']} | {cs} |\n")
    # final sanity: tree restored
    assert clean()
    return 0

if __name__ == "__main__":
    sys.exit(main())
