#!/usr/bin/env python3
"""Regenerate /verif/MANIFEST.json from the table below (kept in one place so it stays valid)."""
import json, os, sys
VERIF = os.path.dirname(os.path.dirname(os.path.abspath(__file__)))

# id -> (technique, level text, level note, design ref)   -- only properties whose check exists
CHECKS = {
 "C01": ("bounded exhaustive exploration of every entry point for panics/hangs: all byte strings <=5 (7) over 12 structural symbols, every 1-byte mutation of ~45 seed sentences, complete grammar product (15 M lines), explicit-state BFS of the real AisParser to closure over a 116-letter alphabet incl. invalid numbering and oversized fragments, all histories <=4 (5), 255-fragment chains, group sizes up to 255 with every single deviation, 600-line soak scripts, 200 000-line (1 000 000) soak scripts and scenarios straddling the 2^8-th / 2^16-th (2^17, 2^20) line, sentence, error, group or delivery at every alignment (ASM-SOAK-LONG, ASM-WRAP), unarmor over all strings <=2 (3) and 1-deviation at every length <=96/around 384/512/1000, messages::parse over 64 types x every length 0..132 x single-bit balls; three builds, checked profile (thorough: also plain release)",
         "Every case of the listed finite spaces is executed on the real crate under catch_unwind with overflow checks and debug assertions on, in each of the three feature configurations; a watchdog turns a non-returning case into a violation. The reassembly state machine is explored to closure (its reachable state set is finite for a finite alphabet), so histories of unbounded length over that alphabet are covered.",
         "Exhaustive within the listed spaces only (byte strings beyond two deviations from a valid sentence and longer than 7 arbitrary bytes are outside); allocation failure and stack overflow are not provoked.", "DESIGN.md §3, §4 C01"),
 "C02": ("bounded exhaustive input enumeration vs. reference recogniser + explicit-state exploration: all 256 transmitted checksums x 8 spellings (incl. values > 0xFF, > 8 digits) x seeds; every field slot replaced by every string <=3 (4) over the structural alphabet with the checksum recomputed; every single-byte corruption (delete / replace by 256 values / insert 256 values) at every position of ~45 seeds; field-level edits; (thorough) every pair of positions x 16^2 bytes; bad-checksum letters in every reachable parser state",
         "For every enumerated line the hand-written recogniser (shape + XOR between the delimiter and the first '*') decides whether a checksum error carrying exactly (transmitted, computed) is due, whether acceptance is permitted, and the real parser must agree; the BFS adds 'in any parser state' and checks that a bad-checksum line leaves the parser unchanged.",
         "Lines with '*' inside a field (zone U1): only the computed side is judged (the XOR up to the first '*' must equal one of the two candidate transmitted values when the line is accepted); exhaustive only within the listed spaces.", "DESIGN.md §2.1, §3.1, §4 C02"),
 "C03": ("bounded exhaustive input enumeration vs. reference model (all byte strings <=2 (3), all legal strings <=4 (5), 1- and 2-character deviations at every position of every length <=96 and around 384/512/1000; fill 0..5; three builds)",
         "Every string of the stated spaces is enumerated (no sampling) and the real unarmor() output is compared byte for byte with an independent 6-bit unpacking model; the function is position-periodic with period 4 characters, so all strings up to one full period plus one/two deviations at every position of long strings cover every (phase, fill, character) combination.",
         "Exhaustive within the listed spaces only; reference model spec::unarmor is mine; rustc/catch_unwind trusted.", "DESIGN.md §2.3, §3.3, §4 C03"),
 "C04": ("bounded exhaustive payload enumeration vs. table-driven ITU-R M.1371 reference decoder: Hamming ball r<=2 around 4 base patterns of 47 layout variants; all 2^w values x 16 neighbour contexts of every integer/flag/id field (w<=14 quick, <=20 thorough); every PAIR of fields x 7x7 boundary values; 256 dense fillings per layout x every single-bit deviation; wide fields: all values within distance 3 of anchors + all 2^18 high/low settings (thorough: complete 2^30 sweeps of MMSI (types 1, 24B), IMO number, destination MMSI); same payloads through the sentence path with every fill count; std and no-allocator builds",
         "A field read one bit early, a width off by one, two swapped fields or a missed spare changes the decode of at least one weight-1/weight-2 payload; 'independently of the neighbours' is the neighbour-context product. The reference tables are written from the standard, not from the crate, and every decoded field is compared by name.",
         "The joint space of a whole message (2^168) is outside: payloads differing from every base pattern in >2 bits and in >1 field at once are not enumerated; 30-bit fields other than the source MMSI are swept in 2x18 of their bits.", "DESIGN.md §2.4, §3.4, §4 C04"),
 "C05": ("bounded exhaustive history enumeration (differential oracle) + explicit-state exploration: one decodable payload per layout x every 2-split, every 3-split (<=34 / <=80 chars), every composition of a 12-char payload into 2..9 parts x 7 ids x 5 prior histories x 5 noise patterns x decode; BFS of the real parser to closure with a reference monitor as step oracle; 255-fragment chains; 200 000-line (1 000 000) soak scripts and scenarios straddling the 2^8-th / 2^16-th (2^17, 2^20) line, sentence, error, group or delivery at every alignment (ASM-SOAK-LONG, ASM-WRAP)",
         "Each fragmented transmission is compared with the same payload sent unfragmented to a fresh parser (payload bytes, decoded message, error class), every non-final result must be Incomplete with its own fields, and Into<Option>/Into<Result> are checked on lock-stepped parsers; the BFS covers 'whatever the parser processed before' to closure over its alphabet.",
         "Payload content is opaque to reassembly (checked by a one-deviation sweep); groups of >9 fragments only in order (255-chain).", "DESIGN.md §2.2, §3.2, §4 C05"),
 "C06": ("explicit-state model checking of the real AisParser: BFS to closure over an 87-letter alphabet (n in 2..5, every k, 5 sequence ids, decodable / undecodable / rejected lines) with state = (parser Debug, reference monitor), run twice; plus every history of length <=5 (6) over a 22-letter core alphabet judged by the C06 statement itself (no monitor); 255-fragment u8-boundary chains, group sizes up to 255 x 10 ids with every single deviation, all 257^2 id pairs, 600-line soak scripts, 200 000-line (1 000 000) soak scripts and scenarios straddling the 2^8-th / 2^16-th (2^17, 2^20) line, sentence, error, group or delivery at every alignment (ASM-SOAK-LONG, ASM-WRAP); plus a TLA+ model (models/Reassembly.tla) verified by TLC against the C06 history predicate, ALL of whose maximal behaviours (12^4 quick / 12^5 thorough) are replayed on the real parser in each build (trace conformance)",
         "The reachable state set is finite for a finite alphabet, so closure means every finite history over the alphabet is covered; every transition is executed on a real parser re-driven along the shortest witness history. The history predicate shares no code with the monitor and validates it on every history up to the depth bound.",
         "Letters outside the alphabet (other ids, n>5 except the directed 255-chain) are not explored; the monitor is mine.", "DESIGN.md §2.2, §3.2, §4 C06"),
 "C07": ("bounded exhaustive input enumeration vs. reference field extractor: complete grammar product (15 M lines; thorough 100+ M), every field slot replaced by every short string over the structural alphabet, explicit-state BFS of the real parser (payload of a completed group = concatenation), all 65536 talker byte pairs, all report-type triples over a 27-byte alphabet (thorough: all 2^24), every accepted single-byte mutant of ~45 seeds, all 256 first payload bytes; decode on/off differential",
         "Every accepted line's talker, report type, counts, id, channel, fill and raw payload are compared with an independent scanner; each accepted line is also parsed with the opposite decode flag on a fresh parser and the sentences must be identical up to the message.",
         "Only lines within the listed spaces; the decoded message itself is judged by C04/C09-C16.", "DESIGN.md §2.1, §3.1, §4 C07"),
 "C08": ("bounded exhaustive input enumeration vs. reference recogniser (language equivalence on the enumerated set): every single-byte delete/replace/insert mutation of ~45 seeds, field-level edits (empty/duplicate/drop/swap) with fresh and stale checksum, complete grammar product, all strings <=5 (7) over 12 structural symbols, every field slot x every string <=3 (4), all checksum spellings; (thorough) two-byte mutations",
         "Accepted <=> the hand-written recogniser of the C08 grammar accepts (star-free lines); a malformed line must give a non-checksum error; std and no-allocator builds.",
         "Zone U1 (a '*' inside a field) is not judged; outside the enumerated mutation radius nothing is claimed.", "DESIGN.md §2.1, §3.1, §4 C08"),
 "C09": ("exhaustive enumeration of all 64 type values x every payload length 0..132 (+255..1024) bytes x 5 contents x part selectors, and single-bit balls at every length 0..64 bytes",
         "For every enumerated payload: Ok(m) implies m is the variant the statement assigns to the six type bits and m.message_type equals them; unsupported type values must be Err. The number of Ok per supported type is reported (non-vacuity).",
         "Contents beyond the 5 patterns + single-bit flips are outside.", "DESIGN.md §3.4, §4 C09"),
 "C10": ("exhaustive field sweeps vs. exact f64 quotient: all 2^w values of every speed/course/draught and 18/17-bit coordinate field in every layout x 16 contexts; 28/27-bit coordinates: all values within Hamming distance 3 of 10+ anchors + all 2^18 high/low settings (thorough: the complete 2^28 / 2^27 sweep in every type carrying them)",
         "The f32 result must lie within 2^-22 relative of the exact quotient (the crate rounds twice; a wrong divisor, width or sign extension is off by >=1e-6), for every raw value including the most negative one.",
         "2-ulp tolerance; quick tier does not sweep 28/27-bit fields completely.", "DESIGN.md §2.4, §4 C10"),
 "C11": ("exhaustive field sweeps: all 2^w values of every optional field (speed, course, heading, rate of turn, altitude, date/time parts, slot offsets, 18/17-bit coordinates) x 16 contexts; wide coordinates as in C10",
         "Present <=> raw != the field's sentinel, and the present value is the transmitted one (out-of-range values pass through), compared with the reference tables for every enumerated value.",
         "As C10 for 28/27-bit fields in the quick tier.", "DESIGN.md §2.4, §4 C11"),
 "C12": ("exhaustive enumeration of every code of every enumerated field in every layout (all 2^w; 256 ship types) through reverse maps written in the harness, plus the stand-alone ShipType conversions for all 256 codes",
         "rev(decode(c)) == c for every code gives the named value, injectivity and the Unknown/Reserved carriers in one comparison against an independent table that is compile-time bound to the crate's public enum variants.",
         "The reverse maps are mine (a renamed variant is a compile error, not a false alarm).", "DESIGN.md §2.4, §4 C12"),
 "C13": ("bounded exhaustive text enumeration: every character value at every position of every text field from 4 base strings (thorough: every pair of positions x 64^2), all strings over the trim-relevant classes at both ends, complete 64^3 vendor id (thorough: 64^4 model/serial), every safety-text length 1..161 characters; std + no-allocator",
         "Exact string equality with the 6-bit table decoding followed by the three trimming steps, for every text field and every alignment that occurs in the layouts (offsets mod 8 in {0,2,3,6,7}).",
         "Full 64^k for k>=7 is outside; no-allocator: >20 characters may be rejected.", "DESIGN.md §3.4, §4 C13"),
 "C14": ("exhaustive enumeration of payload lengths: 64 types x every length 0..132 (+255..1024) bytes x 5 contents, single-bit balls at every length <=64, every text / binary length, and every bit length of the last byte x every fill count through the sentence path",
         "Threshold table per type: below the mandatory part -> Err; at legal lengths -> Ok with exact element counts; elsewhere whatever is reported must equal the bits at its specified position (fields beyond the end must not appear).",
         "Type 15 at non-legal lengths (U4) and type 17 with 80..119 bits (U5) accept Err or a sound Ok.", "DESIGN.md §2.4 table, §4 C14"),
 "C15": ("exhaustive enumeration of binary payload lengths: types 6, 8, 17 x every data length 0..130 bytes x 3 contents x every single-bit deviation in header and data",
         "dac/fid (and the DGNSS header) exact; data == payload[header..] byte for byte and of exactly that length, for every length past the protocol maximum and the no-allocator capacity.",
         "Contents beyond position-coded/zeros/ones + one flipped bit are outside.", "DESIGN.md §3.4, §4 C15"),
 "C16": ("complete enumeration of all 2^19 communication states in types 1, 2, 3, 4, 11 and all 2^20 (selector + state) in types 9 and 18, each in two surrounding contexts, vs. the ITU SOTDMA/ITDMA rules",
         "Every state value is decoded by the real crate and compared field by field (sync, time-out, sub-message kind and value / increment, slots, keep) with the reference rules.",
         "Known finding: type 9 reads the state one bit early (recognised by its exact signature; any other deviation in type 9 is still reported). U2: UTC minute with bit 8 set accepts the 6- or 7-bit reading.", "DESIGN.md §4 C16, §6 D6"),
 "C17": ("explicit-state model checking + metamorphic history enumeration: BFS of the real parser to closure over a 116-letter extended alphabet (invalid numbering, oversized and non-armoring fragments) checking that every rejected / unfragmented line leaves the state unchanged (Debug equality, falling back to behavioural comparison over all continuations <=2 / core continuations of length 3); every history <=5 (6) with every removable line deleted; two parser objects under ALL interleavings of two streams <=3 letters; 200 000-line (1 000 000) soak scripts and scenarios straddling the 2^8-th / 2^16-th (2^17, 2^20) line, sentence, error, group or delivery at every alignment (ASM-SOAK-LONG, ASM-WRAP) with all rejected / unfragmented lines deleted (metamorphic)",
         "Inductive form (state unchanged in every reachable state), metamorphic form (removing the line changes no other result, on every history up to the bound) and instance independence (each parser equals its solo run under every interleaving).",
         "Alphabet- and depth-bounded as stated.", "DESIGN.md §3.2, §4 C17"),
 "C18": ("differential bounded exhaustive enumeration across the three builds: the line, reassembly, unarmor and message spaces are run in std, alloc and no-allocator builds and per-4096-case digests of the canonical outcomes are compared; inputs beyond a documented capacity are tokenised in all builds and must be Err (or an untruncated Ok) without an allocator; explicit-state exploration with the capacity-aware monitor in each build",
         "std == alloc == none on acceptance, error category and every sentence and message field for every enumerated case; on a digest mismatch the chunk is re-run in dump mode in both builds and the first differing case is reported.",
         "Error message texts are not compared (String vs &'static str); equality is claimed for the enumerated spaces only.", "DESIGN.md §4 C18"),
 "C19": ("exhaustive enumeration of all 256 first payload bytes (all 64 armoring characters) x 4 sentence shapes x 3 payload lengths x decode, and on the continuation and completing fragments of 2- and 3-fragment groups",
         "sentence.message_type must equal the 6-bit value of the first payload character, and the decoded message's own type when one is decoded; a well-formed sentence must not be rejected because of its first payload character.",
         "Known finding: the crate reports first_char >> 2 (recognised by its exact signature; 4 pinned tests assert it).", "DESIGN.md §4 C19, §6 D10"),
 "C20": ("bounded exhaustive stream enumeration on the real binary: every sequence of <=3 (4) lines over 13 line kinds x final newline present/absent, every byte string <=4 (5) over {LF,CR,!,A,comma,0x80,NUL} as the whole input, lines of 10^3..10^6 bytes, one fresh process each through a pipe, plus long cyclic streams (thorough: 200 000 lines); expectation = the library itself in-process",
         "Exit status 0, number and order of stdout records each containing the expected message Debug, number of stderr records, nothing for incomplete fragments, no timeout.",
         "Line kinds, not arbitrary bytes; the echo format of the offending line is not pinned.", "DESIGN.md §2.5, §3.5, §4 C20"),
}
PENDING_REASON = "check not built yet in this commit (planned: see DESIGN.md §4); will be claimed once its machinery exists"

def main():
    props = [json.loads(l)["id"] for l in open(os.path.join(VERIF, "properties.jsonl"))]
    checks, na = [], []
    for p in props:
        if p in CHECKS:
            tech, text, note, ref = CHECKS[p]
            checks.append(dict(property_id=p, quick_cmd=f"./check {p} --tier quick",
                thorough_cmd=f"./check {p} --tier thorough", evidence_file=f"/verif/evidence/{p}.json",
                replay_cmd_template="./check replay {path}", engine="aisverif",
                level_claimed=dict(category="model_checking", text=text, design_ref=ref),
                level_note=note, technique=tech))
        else:
            na.append(dict(property_id=p, reason=PENDING_REASON))
    m = dict(version=1, setup_cmd="./check setup",
        hooks=dict(guard="none (no source hooks are needed: the parser's private state is observable through its derived Debug, everything else through the public API)",
                   enable="n/a - checks build /repo's working tree unmodified, three times (features std / alloc / none)",
                   baseline_off_cmd="cd /repo && cargo test --workspace --no-fail-fast --offline",
                   source_commits=[], add_only=True),
        engines=[dict(name="tlc+conformance", path="/verif/models", serves_properties=["C06"],
                      kind_free_text="TLA+ model of the reassembly protocol checked by TLC (invariant = the C06 history predicate, action property = no trace); every maximal behaviour from the TLC state dump is replayed against the real AisParser (aisverif conform)"),
                 dict(name="aisverif", path="/verif/harness", serves_properties=sorted(CHECKS),
                      kind_free_text="hand-rolled bounded-exhaustive explorer in Rust: index-addressable input spaces enumerated completely against table-driven reference models, plus explicit-state BFS-to-closure and all-histories-to-depth-d exploration of the real AisParser; python3 driver ./check")],
        checks=checks, not_applicable=na,
        notes="All checks rebuild the harness against /repo's current working tree (cargo, offline). Known findings: /verif/known-findings.txt.")
    json.dump(m, open(os.path.join(VERIF, "MANIFEST.json"), "w"), indent=1)
    print("wrote MANIFEST.json:", len(checks), "checks,", len(na), "not_applicable")

if __name__ == "__main__":
    main()
