#!/usr/bin/env python3
"""Regenerate /verif/MANIFEST.json from the table below (kept in one place so it stays valid)."""
import json, os, sys
VERIF = os.path.dirname(os.path.dirname(os.path.abspath(__file__)))

# id -> (technique, level text, level note, design ref)   -- only properties whose check exists
CHECKS = {
 "C03": ("bounded exhaustive input enumeration vs. reference model (all byte strings <=2, all legal strings <=4, 1- and 2-character deviations at every position of every length <=96 and around 384/512/1000; fill 0..5; three builds)",
         "Every string of the stated spaces is enumerated (no sampling) and the real unarmor() output is compared byte for byte with an independent 6-bit unpacking model; the function is position-periodic with period 4 characters, so all strings up to one full period plus one/two deviations at every position of long strings cover every (phase, fill, character) combination.",
         "Exhaustive within the listed spaces only; reference model spec::unarmor is mine; rustc/catch_unwind trusted.", "DESIGN.md §2.3, §3.3, §4 C03"),
}
PENDING_REASON = "check not built yet in this commit (planned: see DESIGN.md §4); will be claimed once its machinery exists"

def main():
    props = [json.loads(l)["id"] for l in open(os.path.join(VERIF, "properties.jsonl"))]
    checks, na = [], []
    for p in props:
        if p in CHECKS:
            tech, text, note, ref = CHECKS[p]
            checks.append(dict(property_id=p, quick_cmd=f"./check {p} --tier quick",
                thorough_cmd=f"./check {p} --tier thorough", evidence_file=f"/verif/evidence/{p}.json",
                replay_cmd_template="./check replay {path}", engine="aisverif",
                level_claimed=dict(category="model_checking", text=text, design_ref=ref),
                level_note=note, technique=tech))
        else:
            na.append(dict(property_id=p, reason=PENDING_REASON))
    m = dict(version=1, setup_cmd="./check setup",
        hooks=dict(guard="none (no source hooks are needed: the parser's private state is observable through its derived Debug, everything else through the public API)",
                   enable="n/a - checks build /repo's working tree unmodified, three times (features std / alloc / none)",
                   baseline_off_cmd="cd /repo && cargo test --workspace --no-fail-fast --offline",
                   source_commits=[], add_only=True),
        engines=[dict(name="aisverif", path="/verif/harness", serves_properties=sorted(CHECKS),
                      kind_free_text="hand-rolled bounded-exhaustive explorer in Rust: index-addressable input spaces enumerated completely against table-driven reference models, plus explicit-state BFS-to-closure and all-histories-to-depth-d exploration of the real AisParser; python3 driver ./check")],
        checks=checks, not_applicable=na,
        notes="All checks rebuild the harness against /repo's current working tree (cargo, offline). Known findings: /verif/known-findings.txt.")
    json.dump(m, open(os.path.join(VERIF, "MANIFEST.json"), "w"), indent=1)
    print("wrote MANIFEST.json:", len(checks), "checks,", len(na), "not_applicable")

if __name__ == "__main__":
    main()
