#!/usr/bin/env python3
"""Detection matrix: run every seeded change / own mutant against the whole FAMILY of checks that
could see it (not only the property it was written against). Meant for `vp run --with-repo`: works
on the repository snapshot in $VP_RUN_REPO (AISVERIF_REPO), never on /repo.

  AISVERIF_REPO=$VP_RUN_REPO tools/run_matrix.py > matrix.tsv"""
import json, os, re, subprocess, sys, time
VERIF = os.path.dirname(os.path.dirname(os.path.abspath(__file__)))
REPO = os.environ["AISVERIF_REPO"]
assert REPO != "/repo"
SENT = ["C02", "C05", "C06", "C07", "C08", "C17", "C19", "C01", "C18"]
MSG = ["C04", "C09", "C10", "C11", "C12", "C13", "C14", "C15", "C16", "C01", "C18"]

def sh(cmd, cwd):
    p = subprocess.run(cmd, cwd=cwd, stdout=subprocess.PIPE, stderr=subprocess.STDOUT, text=True)
    return p.returncode, p.stdout

def family(patch):
    files = re.findall(r"^\+\+\+ b/(\S+)", open(patch).read(), re.M)
    fam = []
    for f in files:
        if f.endswith("bin/aisparser.rs"):
            fam += ["C20"]
        elif f.endswith("sentence.rs") or f.endswith("errors.rs"):
            fam += SENT
        elif f.endswith("messages/mod.rs"):
            fam += ["C03"] + MSG + ["C05", "C07"]
        else:
            fam += MSG
    out = []
    for c in fam:
        if c not in out:
            out.append(c)
    return out

def main():
    jobs = []
    d = os.path.join(VERIF, "seeded")
    for name in sorted(os.listdir(d)):
        if os.path.exists(os.path.join(d, name, "patch.diff")):
            jobs.append((name, os.path.join(d, name, "patch.diff")))
    d = os.path.join(VERIF, "mutants")
    for f in sorted(os.listdir(d)):
        if f.endswith(".diff"):
            jobs.append((f[:-5], os.path.join(d, f)))
    flt = os.environ.get("MATRIX_FILTER", "")
    if flt:
        jobs = [j for j in jobs if re.match(flt, j[0])]
    print("change\tcaught_by\tnot_caught_by\tmachinery_errors", flush=True)
    for name, patch in jobs:
        rc, o = sh(["git", "apply", patch], REPO)
        if rc != 0:
            print(f"{name}\tPATCH-DOES-NOT-APPLY\t\t", flush=True)
            continue
        caught, quiet, broken = [], [], []
        try:
            for c in family(patch):
                rc, o = sh([os.path.join(VERIF, "check"), c], VERIF)
                (caught if rc == 1 else quiet if rc == 0 else broken).append(c)
        finally:
            sh(["git", "checkout", "--", "."], REPO)
        print(f"{name}\t{' '.join(caught)}\t{' '.join(quiet)}\t{' '.join(broken)}", flush=True)

if __name__ == "__main__":
    main()
