#!/usr/bin/env python3
"""False-alarm test: apply each behaviour-preserving refactoring (benign/<id>/patch.diff) to /repo's
working tree, run the pinned suite and EVERY quick check, restore the tree. Every check must exit 0.
Writes benign/RESULTS.md."""
import os, re, subprocess, sys, time
REPO, VERIF = "/repo", "/verif"
PROPS = ["C%02d" % i for i in range(1, 21)]

def sh(cmd, cwd=REPO):
    p = subprocess.run(cmd, cwd=cwd, shell=isinstance(cmd, str), stdout=subprocess.PIPE, stderr=subprocess.STDOUT, text=True)
    return p.returncode, p.stdout

def main():
    d = os.path.join(VERIF, os.environ.get("BENIGN_DIR", "benign"))
    only = sys.argv[1:]
    rows = []
    for name in sorted(os.listdir(d)):
        patch = os.path.join(d, name, "patch.diff")
        if not os.path.exists(patch) or (only and name not in only):
            continue
        assert sh("git status --porcelain -- src Cargo.toml")[1].strip() == "", "/repo not clean"
        res = {}
        try:
            rc, o = sh(["git", "apply", patch])
            if rc != 0:
                rows.append((name, "patch does not apply", {}))
                continue
            rc, o = sh("cargo test --offline 2>&1 | grep -E '^test result' | head -1")
            tests = "ok. 59 passed" in o
            for c in PROPS:
                rc, o = sh([os.path.join(VERIF, "check"), c], cwd=VERIF)
                sigs = re.findall(r"^  sig=(\S+)", o, re.M)
                res[c] = (rc, sigs[:3])
        finally:
            sh("git checkout -- .")
        alarms = {c: v for c, v in res.items() if v[0] != 0}
        print(f"{name}: tests_pass={tests} alarms={alarms}", flush=True)
        rows.append((name, tests, alarms))
    if not only:
        with open(os.path.join(d, "RESULTS.md"), "w") as f:
            f.write("| refactoring | pinned tests pass | checks that did not exit 0 (all 20 quick checks were run) |\n|---|---|---|\n")
            for name, tests, alarms in rows:
                f.write(f"| {name} | {tests} | {'none' if not alarms else '; '.join(f'{c}: exit {v[0]} {v[1]}' for c, v in alarms.items())} |\n")
    assert sh("git status --porcelain -- src Cargo.toml")[1].strip() == ""

if __name__ == "__main__":
    sys.exit(main())
