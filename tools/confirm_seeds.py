#!/usr/bin/env python3
"""Confirm the sub-agents' seeded changes in their scratch worktrees (/tmp/seed/CXX) and copy the
confirmed ones to /verif/seeded/<id>/ (patch.diff, demo, notes.md, meta.json)."""
import json, os, re, shutil, subprocess, sys
SEED = os.environ.get("SEED_DIR", "/tmp/seed")
PREFIX = os.environ.get("SEED_PREFIX", "")
OUT = "/verif/seeded"
ENV = dict(os.environ, CARGO_NET_OFFLINE="true")

def sh(cmd, cwd, timeout=1800):
    p = subprocess.run(cmd, cwd=cwd, shell=True, stdout=subprocess.PIPE, stderr=subprocess.STDOUT, text=True, env=ENV, timeout=timeout)
    return p.returncode, p.stdout

def demo(w, v, flags):
    d = os.path.join(w, "_seed", v)
    if os.path.exists(os.path.join(d, "demo.rs")):
        os.makedirs(os.path.join(w, "tests"), exist_ok=True)
        shutil.copy(os.path.join(d, "demo.rs"), os.path.join(w, "tests", "seed_demo.rs"))
        rc, o = sh(f"cargo test --offline {flags} --test seed_demo 2>&1 | tail -15", w)
        ok = "test result: ok" in o
        os.remove(os.path.join(w, "tests", "seed_demo.rs"))
        return ok, o[-600:]
    else:
        rc, o = sh(f"bash _seed/{v}/demo.sh 2>&1 | tail -15", w)
        return ("DEMO PASS" in o) or (rc == 0 and "FAIL" not in o), o[-600:]

def main():
    only = sys.argv[1:]
    os.makedirs(OUT, exist_ok=True)
    for prop in sorted(os.listdir(SEED)):
        w = os.path.join(SEED, prop)
        for v in os.environ.get("SEED_VARIANTS", "a b c").split():
            sid = f"{PREFIX}{prop}{v}"
            if only and sid not in only:
                continue
            d = os.path.join(w, "_seed", v)
            if not os.path.exists(os.path.join(d, "patch.diff")):
                continue
            sh("git checkout -- . ; rm -f tests/seed_demo.rs", w)
            notes = open(os.path.join(d, "notes.md")).read() if os.path.exists(os.path.join(d, "notes.md")) else ""
            realprop = prop
            if not re.match(r"C\d\d$", prop):
                mm = re.findall(r"C\d\d", notes)
                realprop = mm[0] if mm else prop
            res = dict(id=sid, property=realprop)
            # without the change
            res["demo_without_std"], _ = demo(w, v, "")
            res["demo_without_none"], _ = demo(w, v, "--no-default-features") if os.path.exists(os.path.join(d, "demo.rs")) else (None, "")
            rc, o = sh(f"git apply _seed/{v}/patch.diff", w)
            res["applies"] = rc == 0
            if rc == 0:
                rc, o = sh("cargo test --offline 2>&1 | grep -E '^test result' | head -1", w)
                res["pinned_tests_pass"] = "ok. 59 passed" in o
                b = []
                for fl in ("", "--no-default-features --features alloc", "--no-default-features"):
                    rc, o = sh(f"cargo build --offline {fl} 2>&1 | tail -1", w)
                    b.append(rc == 0 and "Finished" in o)
                res["builds_3_configs"] = all(b)
                res["demo_with_std"], o1 = demo(w, v, "")
                res["demo_with_none"], o2 = demo(w, v, "--no-default-features") if os.path.exists(os.path.join(d, "demo.rs")) else (None, "")
                res["demo_output_with_change"] = (o1 if not res["demo_with_std"] else o2)[-400:]
            sh("git checkout -- . ; rm -f tests/seed_demo.rs", w)
            std_ok = res.get("demo_without_std") and res.get("demo_with_std") is False
            none_ok = res.get("demo_without_none") and res.get("demo_with_none") is False
            res["confirmed"] = bool(res.get("applies") and res.get("pinned_tests_pass") and res.get("builds_3_configs") and (std_ok or none_ok))
            res["manifests_in"] = [c for c, ok in (("std", std_ok), ("none", none_ok)) if ok]
            print(json.dumps({k: v for k, v in res.items() if k != "demo_output_with_change"}), flush=True)
            if res["confirmed"]:
                o = os.path.join(OUT, sid)
                os.makedirs(o, exist_ok=True)
                for f in os.listdir(d):
                    shutil.copy(os.path.join(d, f), os.path.join(o, f))
                first = notes.strip().split("\n")
                allprops = sorted(set(re.findall(r"C\d\d", notes.split("\n\n")[0] + notes[:400]))) or [realprop]
                meta = dict(id=sid, property=realprop, properties_named_in_notes=allprops, source=os.environ.get("SEED_SOURCE", "") or"independent sub-agent given only the property text and a scratch worktree",
                            what=" ".join(l.strip() for l in first[:6])[:900],
                            needs_to_manifest=(re.search(r"(?is)needs[^\n]*manifest[^\n]*:?(.*?)(\n\n|\ncommands|\Z)", notes) or [None, ""])[1].strip()[:600],
                            manifests_in_configurations=res["manifests_in"],
                            confirmed_by=dict(script="tools/confirm_seeds.py in the scratch worktree " + w,
                                              applies=res["applies"], pinned_59_tests_pass_with_change=res["pinned_tests_pass"],
                                              builds_in_3_configurations=res["builds_3_configs"],
                                              demo_passes_without_change=True, demo_fails_with_change=True),
                            checks_to_run=[realprop])
                json.dump(meta, open(os.path.join(o, "meta.json"), "w"), indent=1)

if __name__ == "__main__":
    main()
