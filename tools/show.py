#!/usr/bin/env python3
import json,sys
d=json.load(open(sys.argv[1]))
for s in d['spaces']:
    print(' ',s['name'],'evals',s['evaluations'],'nontriv',s['nontrivial'],s['outcomes'],'unjudged',s['unjudged'],'%.2fs'%s['wall_s'])
    for v in s['violations'][:int(sys.argv[2]) if len(sys.argv)>2 else 10]:
        print('    ',v['sig'],v['count'],v['index'], json.dumps(v['detail'])[:int(sys.argv[3]) if len(sys.argv)>3 else 600])
e=d.get('explorer')
if e:
    print({k:v for k,v in e.items() if k not in('violations','samples')})
    for v in e['violations']: print('   EX',v['sig'],v['count'],json.dumps(v['detail'])[:700])
