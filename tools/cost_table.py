#!/usr/bin/env python3
"""Rewrite the measured quick-tier table in DESIGN.md (between the COST-TABLE markers) from evidence/*.json."""
import json, glob, re
rows = []
for f in sorted(glob.glob('/verif/evidence/*.json')):
    d = json.load(open(f)); c = d['coverage']
    rows.append("| %s | %s | %s | %s | %s | %s |" % (d['property_id'], ", ".join(sorted({b.split('/')[0] for b in c['builds']})),
        f"{c['evaluations']:,}", f"{c['distinct_nontrivial']:,}",
        (f"{c['states']:,} / {c['transitions']:,}" if c.get('states') else "–"), round(d['wall_s'], 1)))
tbl = "| id | builds | evaluations | non-trivial | BFS states / transitions (all builds) | wall s |\n|---|---|---|---|---|---|\n" + "\n".join(rows)
p = '/verif/DESIGN.md'
s = open(p).read()
s = re.sub(r"<!-- COST-TABLE -->.*?<!-- /COST-TABLE -->", "<!-- COST-TABLE -->\n" + tbl + "\n<!-- /COST-TABLE -->", s, flags=re.S)
open(p, 'w').write(s)
print("table rewritten:", len(rows), "rows")
