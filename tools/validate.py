#!/opt/veriftools/pyvenv/bin/python
import json, jsonschema, glob, os, sys
jsonschema.validate(json.load(open('/verif/MANIFEST.json')), json.load(open('/root/.vp/MANIFEST.schema.json')))
s = json.load(open('/root/.vp/EVIDENCE.schema.json'))
for f in sorted(glob.glob('/verif/evidence/*.json')):
    jsonschema.validate(json.load(open(f)), s)
    if os.path.getsize(f) > 1_000_000:
        sys.exit(f'{f}: {os.path.getsize(f)} bytes - evidence files must stay below 1 MB')
    print('valid', f)
print('manifest valid')
