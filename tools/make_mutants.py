#!/usr/bin/env python3
"""Generate /verif/mutants/*.diff: realistic property-breaking slips (DESIGN.md §7).
Each is produced by a textual replacement on /repo's working tree, captured with git diff, and
undone immediately. Nothing is committed in /repo."""
import subprocess, os, sys
REPO = "/repo"
OUT = "/verif/mutants"
M = [
 # name, file, old, new, properties expected to be violated
 ("control-cksum-fold-reversed", "src/sentence.rs", "sentence.iter().fold(0u8, |acc, &item| acc ^ item)", "sentence.iter().rev().fold(0u8, |acc, &item| item ^ acc)", "none (equivalent rewrite: control, must NOT be reported) C02 C08 C07 C01"),
 ("cksum-first-byte-indexed", "src/sentence.rs", "sentence.iter().fold(0u8, |acc, &item| acc ^ item)", "sentence.iter().skip(1).fold(sentence[0], |acc, &item| acc ^ item)", "C01 C02 C08 (index out of bounds on an empty body: '!*00')"),
 ("control-line-counter", "src/sentence.rs", "        let (_, (data, mut ais_sentence, checksum)) = parse_nmea_sentence(line)?;", "        self.fragment_number_hint = self.fragment_number_hint.wrapping_add(1);\n        let (_, (data, mut ais_sentence, checksum)) = parse_nmea_sentence(line)?;", "none (benign: a private per-line counter changes the Debug rendering on every line, behaviour unchanged; control, must NOT be reported) C17 C06 C05 C02 C01"),
 ("control-error-texts", "src/sentence.rs", "return Err(\"Fragment numbers out of sequence\".into());", "return Err(\"fragment out of order\".into());", "none (benign: error text changed; control, must NOT be reported) C06 C17 C18"),
 ("control-repair-type9-selector", "src/messages/standard_aircraft_position_report.rs", "        let (data, radio_status) = parse_radio(data, message_type)?;", "        let (data, cs_selector) = take_bits::<_, u8, _, _>(1u8)(data)?;\n        let (data, radio_status) = match cs_selector {\n            0 => SotdmaMessage::parse(data)?,\n            _ => ItdmaMessage::parse(data)?,\n        };", "none (a REPAIR of known finding D6; pinned test_type9_example fails by design; C16 must exit 0 without a KNOWN-FINDING line) C16 C04 C14 C01"),
 ("control-repair-sentence-type", "src/sentence.rs", "    let (_, message_type) = messages::message_type(ais_data)?;", "    let (_, shifted) = messages::message_type(ais_data)?;\n    let message_type = match ais_data[0] {\n        c @ 48..=87 => c - 48,\n        c @ 96..=119 => c - 56,\n        _ => shifted,\n    };", "none (a REPAIR of known finding D10; four pinned sentence tests fail by design; C19 must exit 0 without a KNOWN-FINDING line) C19 C07 C08 C01"),
 ("control-utc-minute-7-bits", "src/messages/radio_status.rs", "        let (data, _spare) = take_bits::<_, u8, _, _>(1u8)(data)?;\n        let (data, minute) = take_bits(6u8)(data)?;", "        let (data, minute) = take_bits(7u8)(data)?;", "none (benign: the ITU reading of the UTC minute, zone U2; control, must NOT be reported) C16 C01"),
 ("control-signed-via-shifts", "src/messages/parsers.rs", "    let mask = !0i32 << len;\n    Ok((\n        input,\n        match (num << (32 - len)).leading_zeros() {\n            0 => num | mask,\n            _ => !mask & num,\n        },\n    ))", "    let shift = 32 - len as u32;\n    Ok((input, num.wrapping_shl(shift).wrapping_shr(0) >> shift))", "none (equivalent rewrite of the sign extension with arithmetic shifts; control, must NOT be reported) C10 C11 C04 C01"),
 ("control-unarmor-table", "src/messages/mod.rs", "        let unarmored = match *byte {\n            48..=87 => byte - 48,\n            96..=119 => byte - 56,", "        let unarmored = match *byte {\n            b'0'..=b'W' => *byte - b'0',\n            b'`'..=b'w' => (*byte - b'`') + 40,", "none (equivalent rewrite of the armoring alphabet; control, must NOT be reported) C03 C14 C01 C18"),
 ("control-delivery-via-take", "src/sentence.rs", "                let mut data = AisRawData::default();\n                lib::std::mem::swap(&mut data, &mut self.data);\n                ais_sentence.data = data;", "                ais_sentence.data = lib::std::mem::take(&mut self.data);", "none (equivalent: mem::take instead of swap on delivery; control, must NOT be reported) C05 C06 C17 C07 C18"),
 ("control-trim-order-equivalent", "src/messages/parsers.rs", "                    val.trim_start()\n                        .trim_end_matches('@')\n                        .trim_end()\n                        .to_string(),", "                    val.trim_end_matches('@')\n                        .trim_end()\n                        .trim_start()\n                        .to_string(),", "none (the three trimming steps commute when the leading step is applied last: equivalent; control, must NOT be reported) C13 C14"),
 ("control-checksum-before-fields", "src/sentence.rs", "        let (_, (data, mut ais_sentence, checksum)) = parse_nmea_sentence(line)?;\n        Self::check_checksum(data, checksum)?;", "        // verify the checksum before looking at the fields\n        if matches!(line.first(), Some(b'!') | Some(b'$')) {\n            let body = &line[1..];\n            if let Some(star) = body.iter().position(|&c| c == b'*') {\n                let mut value: u32 = 0;\n                let mut n = 0;\n                for &c in body[star + 1..].iter().take(8) {\n                    match (c as char).to_digit(16) {\n                        Some(d) => {\n                            value = value * 16 + d;\n                            n += 1;\n                        }\n                        None => break,\n                    }\n                }\n                if n > 0 && value <= 0xff {\n                    Self::check_checksum(&body[..star], value as u8)?;\n                }\n            }\n        }\n        let (_, (data, mut ais_sentence, checksum)) = parse_nmea_sentence(line)?;\n        Self::check_checksum(data, checksum)?;", "none (benign reordering: the checksum is verified before the fields, so a malformed line with a wrong checksum gets a CHECKSUM error; control, must NOT be reported) C02 C08 C07 C17 C01"),
 ("control-t15-report-empty-second-request", "src/messages/interrogation.rs", "            if message.message_type != 0 || message.slot_offset.is_some() {\n                push_unwrap(&mut messages, message);\n            }", "            push_unwrap(&mut messages, message);", "none (benign: an all-zero second request of a type-15 station is reported instead of dropped - the statement does not say; control, must NOT be reported) C14 C04 C11 C01"),
 ("cksum-low-nibble", "src/sentence.rs", "if expected_checksum != received_checksum {", "if expected_checksum & 0x7f != received_checksum & 0x7f {", "C02 C08"),
 ("cksum-bypass-on-continuation", "src/sentence.rs", "        Self::check_checksum(data, checksum)?;\n", "        if ais_sentence.fragment_number <= 1 {\n            Self::check_checksum(data, checksum)?;\n        }\n", "C02"),
 ("cksum-error-fields-swapped", "src/sentence.rs", "                expected: expected_checksum,\n                found: received_checksum,", "                expected: received_checksum,\n                found: expected_checksum,", "C02"),
 ("armor-range-87", "src/messages/mod.rs", "48..=87 => byte - 48,", "48..=88 => byte - 48,", "C03"),
 ("armor-fill-mask-phase", "src/messages/mod.rs", "*byte &= 0xffu8 << (fill_bits - bits_in_final_byte);", "*byte &= 0xffu8 << (fill_bits - bits_in_final_byte + (bits_in_final_byte == 2) as usize);", "C03"),
 ("t5-bow-stern-swapped", "src/messages/static_and_voyage_related_data.rs", "        let (data, dimension_to_bow) = take_bits(9u16)(data)?;\n        let (data, dimension_to_stern) = take_bits(9u16)(data)?;", "        let (data, dimension_to_stern) = take_bits(9u16)(data)?;\n        let (data, dimension_to_bow) = take_bits(9u16)(data)?;", "C04"),
 ("t10-dest-mmsi-29", "src/messages/utc_date_inquiry.rs", "        let (data, _spare1) = take_bits::<_, u8, _, _>(2u8)(data)?;\n        let (data, dest_mmsi) = take_bits(30u32)(data)?;", "        let (data, _spare1) = take_bits::<_, u8, _, _>(3u8)(data)?;\n        let (data, dest_mmsi) = take_bits(29u32)(data)?;", "C04"),
 ("cog-sentinel-360", "src/messages/navigation.rs", "        3600 => None,", "        3600..=4095 => None,", "C11"),
 ("lat-width-26", "src/messages/aid_to_navigation_report.rs", "map(|data| signed_i32(data, 27), parse_latitude)", "map(|data| { let (d, v) = signed_i32(data, 27)?; Ok((d, (v << 6) >> 6)) }, parse_latitude)", "C10"),
 ("unfrag-resets-state", "src/sentence.rs", "            if decode {\n                let unarmored", "            if !ais_sentence.is_fragment() {\n                self.fragment_number = 0;\n            }\n            if decode {\n                let unarmored", "C05 C17"),
 ("state-update-before-seq-check", "src/sentence.rs", "        if self.message_id != ais_sentence.message_id {\n            return Err(\"Message ID out of sequence\".into());\n        }\n        if ais_sentence.fragment_number.checked_sub(self.fragment_number) != Some(1) {\n            return Err(\"Fragment numbers out of sequence\".into());\n        }", "        if self.message_id != ais_sentence.message_id {\n            return Err(\"Message ID out of sequence\".into());\n        }\n        let previous = self.fragment_number;\n        self.fragment_number = ais_sentence.fragment_number;\n        if ais_sentence.fragment_number.checked_sub(previous) != Some(1) {\n            return Err(\"Fragment numbers out of sequence\".into());\n        }", "C06 C17"),
 ("id-compare-dropped", "src/sentence.rs", "        if self.message_id != ais_sentence.message_id {\n            return Err(\"Message ID out of sequence\".into());\n        }\n", "        if self.message_id.is_some() && ais_sentence.message_id.is_some() && self.message_id != ais_sentence.message_id {\n            return Err(\"Message ID out of sequence\".into());\n        }\n", "C06"),
 ("dispatch-7-13-swapped", "src/messages/mod.rs", "        7 => Ok(AisMessage::BinaryAcknowledgeMessage(\n            binary_acknowledge::BinaryAcknowledge::parse(unarmored)?,\n        )),", "        7 => Ok(AisMessage::SafetyRelatedAcknowledgment(\n            safety_related_acknowledgment::SafetyRelatedAcknowledge::parse(unarmored)?,\n        )),", "C09"),
 ("control-dispatch-accepts-type-0", "src/messages/mod.rs", "        1..=3 => Ok(AisMessage::PositionReport(", "        0..=3 => Ok(AisMessage::PositionReport(", "none (equivalent: parse_radio still rejects type 0; control, must NOT be reported) C09 C14 C01"),
 ("acks-max-3", "src/messages/binary_acknowledge.rs", "many_m_n(1, 4, Acknowledgement::parse)", "many_m_n(1, 3, Acknowledgement::parse)", "C14"),
 ("t16-second-station-gt52", "src/messages/assignment_mode_command.rs", "if remaining_bits >= 52 {", "if remaining_bits > 52 {", "C14"),
 ("t8-data-off-by-one", "src/messages/binary_broadcast_message.rs", "        #[cfg(any(feature = \"std\", feature = \"alloc\"))]\n        let data_owned = data.0.into();", "        #[cfg(any(feature = \"std\", feature = \"alloc\"))]\n        let data_owned = data.0[..data.0.len() - (data.0.len() > 100) as usize].into();", "C15"),
 ("trim-matches-at", "src/messages/parsers.rs", "                    val.trim_start()\n                        .trim_end_matches('@')\n                        .trim_end()\n                        .to_string(),", "                    val.trim_start()\n                        .trim_matches('@')\n                        .trim_end()\n                        .to_string(),", "C13"),
 ("itdma-increment-12", "src/messages/radio_status.rs", "        let (data, slot_increment) = take_bits(13u16)(data)?;\n        let (data, num_slots) = take_bits(3u8)(data)?;", "        let (data, _hi) = take_bits::<_, u8, _, _>(1u8)(data)?;\n        let (data, slot_increment) = take_bits(12u16)(data)?;\n        let (data, num_slots) = take_bits(3u8)(data)?;", "C16"),
 ("noalloc-bin-cap-118", "src/messages/binary_broadcast_message.rs", "const MAX_DATA_SIZE_BYTES: usize = 119;", "const MAX_DATA_SIZE_BYTES: usize = 118;", "C18"),
 ("fill-le-6", "src/sentence.rs", "verify(parse_u8_digit, |val| *val < 6)", "verify(parse_u8_digit, |val| *val <= 6)", "C08 C01"),
 ("hex-value-unchecked", "src/sentence.rs", "verify(hex_u32, |val| val <= &0xff)", "verify(hex_u32, |val| val <= &0xffff)", "C08"),
 ("cli-stops-at-first-error", "src/bin/aisparser.rs", "                parse_nmea_line(&mut parser, &line).unwrap_or_else(|err| {", "                parse_nmea_line(&mut parser, &line).unwrap_or_else(|err| {\n                    if line.is_empty() {\n                        std::process::exit(0);\n                    }", "C20"),
 ("navstatus-11-13-merged", "src/messages/position_report.rs", "            12 => Some(Self::Reserved02),", "            12 => Some(Self::Reserved01),", "C12"),
 ("shiptype-roundtrip-56", "src/messages/types.rs", "            56..=57 => Some(Self::SpareLocalVessel(data)),", "            56..=57 => Some(Self::SpareLocalVessel(56)),", "C12"),
 ("sentence-type-shift-3", "src/sentence.rs", "    let (_, message_type) = messages::message_type(ais_data)?;", "    let (_, message_type) = messages::message_type(ais_data)?;\n    let message_type = if num_fragments > 1 { message_type >> 1 } else { message_type };", "C19"),
]

EXTRA = {
 "control-line-counter": [("    fragment_number: u8,\n    data: AisRawData,\n}", "    fragment_number: u8,\n    data: AisRawData,\n    fragment_number_hint: usize,\n}")],
}

def sh(*a, **k):
    return subprocess.run(a, cwd=REPO, stdout=subprocess.PIPE, stderr=subprocess.STDOUT, text=True, **k)

def main():
    assert sh("git", "status", "--porcelain", "--", "src").stdout.strip() == "", "repo src not clean"
    os.makedirs(OUT, exist_ok=True)
    idx = []
    for name, f, old, new, props in M:
        p = os.path.join(REPO, f)
        s = open(p).read()
        if s.count(old) != 1:
            print("!! cannot place", name, s.count(old)); continue
        s = s.replace(old, new)
        for (o2, n2) in EXTRA.get(name, []):
            assert s.count(o2) == 1, (name, o2)
            s = s.replace(o2, n2)
        open(p, "w").write(s)
        d = sh("git", "diff", "--", "src").stdout
        sh("git", "checkout", "--", "src")
        open(os.path.join(OUT, name + ".diff"), "w").write(d)
        idx.append((name, props))
    open(os.path.join(OUT, "INDEX.tsv"), "w").write("".join(f"{n}\t{p}\n" for n, p in idx))
    print("wrote", len(idx), "mutants")

if __name__ == "__main__":
    main()
